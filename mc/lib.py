"""Binding to the implementation under test: import guard, construction of library objects
from exact model objects, observation (denotation) of library results and the tolerant
comparison of an observed result with an exact denotation."""
import os
import sys
import math

sys.dont_write_bytecode = True

import Geometry3D as G
from Geometry3D import (Point, Line, HalfLine, Segment, Plane, ConvexPolygon, ConvexPolyhedron,
                        Vector, intersection)

from . import exact as X

REPO = os.environ.get('VERIF_REPO', '/repo')
PKG_DIR = os.path.dirname(os.path.realpath(G.__file__))


def assert_binding():
    f = os.path.realpath(G.__file__)
    if not f.startswith(os.path.realpath(REPO) + os.sep):
        raise RuntimeError('Geometry3D imported from %s, expected under %s' % (f, REPO))
    G.set_log_level('CRITICAL')
    import logging
    logging.disable(logging.CRITICAL)


def assert_default_tolerance():
    if G.get_eps() != 1e-10 or G.get_sig_figures() != 10:
        raise RuntimeError('library tolerance is not the default: %r %r' % (G.get_eps(), G.get_sig_figures()))


TOL = 1e-8


def fl(x):
    return float(x)


MODE = 'float'   # 'int': integral coordinates are passed as Python ints (set per family by the explorer)
FORM = 'A'       # 'B': operands are built through the alternative public constructor forms (Line(P,P), HalfLine(P,P),
                 #      Segment(P,V), Plane(a,b,c,d) general form), 'C': Plane from three points / Line(V,V)


def _num(c):
    if MODE == 'int':
        f = float(c)
        if f == int(f):
            return int(f)
        return f
    return float(c)


KEEP = None      # a list: every Point built by P() is recorded as (object, coordinates as passed) - the caller keeps its arguments
SHARE = False    # True: every Point handed to a constructor by to_lib() also serves other, later moved, lines /
                 # segments / half-lines, before and after the construction (see shared_points())
_CREATED = []


def P(p):
    pt = Point(_num(p[0]), _num(p[1]), _num(p[2]))
    if KEEP is not None:
        KEEP.append((pt, (_num(p[0]), _num(p[1]), _num(p[2]))))
    if SHARE:
        use_point_elsewhere(pt)
        _CREATED.append(pt)
    return pt


class shared_points:
    """context manager: operands built by to_lib() inside it are built from caller-owned Points that have other
    legal uses (constructors that take Points must neither keep them by reference nor let other users change them)."""

    def __enter__(self):
        global SHARE
        self.old = SHARE
        SHARE = True
        del _CREATED[:]

    def __exit__(self, *a):
        global SHARE
        SHARE = self.old
        del _CREATED[:]


def V(d):
    return Vector(_num(d[0]), _num(d[1]), _num(d[2]))


class ConstructionFailed(Exception):
    """a public constructor raised on a valid operand: a library defect, reported as a
    violation by the explorer (never a harness error)."""

    def __init__(self, o, exc):
        Exception.__init__(self, '%s: %s(%s)' % (o[0] if o else o, type(exc).__name__, exc))
        self.kind = o[0] if o else 'None'
        self.cls = type(exc).__name__
        self.obj = o


from functools import lru_cache as _lru


@_lru(maxsize=100000)
def _valid(o):
    """model-side validity of an operand (a harness that feeds invalid operands must fail as a
    harness error, never as a library violation)."""
    k = o[0]
    if k in ('Line', 'HalfLine', 'Plane'):
        return not X.is_zero(o[2])
    if k == 'Segment':
        return X.frv(o[1]) != X.frv(o[2])
    if k == 'ConvexPolygon':
        return len(o[1]) >= 3 and X.rank_pts(o[1]) == 2 and X.is_convex_position(o[1])
    if k == 'ConvexPolyhedron':
        return len(o[1]) >= 4 and X.rank_pts(o[1]) == 3 and X.is_convex_position(o[1])
    return True


class InvalidScene(Exception):
    pass


def to_lib(o):
    """exact model object -> freshly constructed library object (public constructors only)."""
    if o is not None and not _valid(o):
        raise InvalidScene('harness built an invalid %s: %r' % (o[0], o))
    try:
        r = _to_lib(o)
        if SHARE:
            for pt in _CREATED:
                if pt is not r:
                    use_point_elsewhere(pt)
            del _CREATED[:]
        return r
    except (LibTimeout, ConstructionFailed):
        raise
    except Exception as e:  # noqa
        raise ConstructionFailed(o, e)


def construct(kind, fn):
    """run a public constructor on valid arguments; failure is a library defect."""
    try:
        return fn()
    except (LibTimeout, ConstructionFailed):
        raise
    except Exception as e:  # noqa
        raise ConstructionFailed((kind,), e)


def _alt_form(o):
    """the same exact object through another public constructor form (None: no alternative for this type)."""
    k = o[0]
    if FORM == 'D':
        # Line(Vector, Vector), Plane(Point, Vector, Vector); HalfLine / Line directions much shorter than 1 (same set: a
        # direction vector is only a direction, whatever its length)
        if k == 'Line':
            return Line(V(o[1]), Vector(*[float(c) / 8 for c in o[2]]))
        if k == 'HalfLine':
            return HalfLine(P(o[1]), Vector(*[float(c) / 8 for c in o[2]]))
        if k == 'Plane':
            n = o[2]
            e = next(e for e in ((1, 0, 0), (0, 1, 0), (0, 0, 1)) if not X.is_zero(X.cross(n, e)))
            u = X.cross(n, e)
            w = X.cross(n, u)
            return Plane(P(o[1]), V(u), V(X.add(w, u)))
    if k == 'Line':
        if FORM == 'B':
            return Line(P(o[1]), P(X.add(o[1], o[2])))
        return Line(V(o[1]), V(o[2]))
    if k == 'HalfLine':
        return HalfLine(P(o[1]), P(X.add(o[1], o[2])))
    if k == 'Segment':
        return Segment(P(o[1]), V(X.sub(o[2], o[1])))
    if k == 'Plane':
        n = o[2]
        if FORM == 'B':
            return Plane(_num(n[0]), _num(n[1]), _num(n[2]), _num(X.dot(n, o[1])))
        e = next(e for e in ((1, 0, 0), (0, 1, 0), (0, 0, 1)) if not X.is_zero(X.cross(n, e)))
        u = X.cross(n, e)
        w = X.cross(n, u)
        return Plane(P(o[1]), P(X.add(o[1], u)), P(X.add(o[1], w)))
    return None


def _to_lib(o):
    if o is None:
        return None
    k = o[0]
    if k == 'Point':
        return P(o[1])
    if FORM != 'A':
        r = _alt_form(o)
        if r is not None:
            return r
    if k == 'Line':
        return Line(P(o[1]), V(o[2]))
    if k == 'HalfLine':
        return HalfLine(P(o[1]), V(o[2]))
    if k == 'Segment':
        return Segment(P(o[1]), P(o[2]))
    if k == 'Plane':
        return Plane(P(o[1]), V(o[2]))
    if k == 'ConvexPolygon':
        return ConvexPolygon(tuple(P(v) for v in o[1]))
    if k == 'ConvexPolyhedron':
        Vs = o[1]
        faces = []
        for n, d, on in X.hull_facets(Vs):
            faces.append(ConvexPolygon(tuple(P(Vs[i]) for i in on)))
        return ConvexPolyhedron(tuple(faces))
    raise TypeError(k)


class LibTimeout(Exception):
    pass


class Raised:
    """outcome of a library call that raised."""

    def __init__(self, exc):
        self.cls = type(exc).__name__
        self.msg = str(exc)[:200]

    def __repr__(self):
        return 'raises:%s(%s)' % (self.cls, self.msg)


def call(fn, *a, **kw):
    """Run one library call; exceptions are caught only here."""
    try:
        return fn(*a, **kw)
    except (LibTimeout, ConstructionFailed):
        raise
    except RecursionError as e:
        return Raised(e)
    except Exception as e:  # noqa: the library call is the only thing wrapped
        return Raised(e)


def tname(r):
    if r is None:
        return 'None'
    if isinstance(r, Raised):
        return 'raises:' + r.cls
    return type(r).__name__


def _c(p):
    return (float(p[0]), float(p[1]), float(p[2]))


def describe(r):
    """JSON-able description of a library value."""
    try:
        if r is None or isinstance(r, (bool, int, float, str)):
            return r
        if isinstance(r, Raised):
            return repr(r)
        if isinstance(r, Point):
            return ['Point', list(_c(r))]
        if isinstance(r, Vector):
            return ['Vector', list(_c(r))]
        if isinstance(r, Segment):
            return ['Segment', list(_c(r.start_point)), list(_c(r.end_point))]
        if isinstance(r, HalfLine):
            return ['HalfLine', list(_c(r.point)), list(_c(r.vector))]
        if isinstance(r, Line):
            return ['Line', list(_c(r.sv)), list(_c(r.dv))]
        if isinstance(r, Plane):
            return ['Plane', list(_c(r.p)), list(_c(r.n))]
        if isinstance(r, ConvexPolygon):
            return ['ConvexPolygon', [list(_c(p)) for p in r.points]]
        if isinstance(r, ConvexPolyhedron):
            return ['ConvexPolyhedron', sorted(list(_c(p)) for p in r.point_set)]
        if isinstance(r, (tuple, list, set, frozenset)):
            return [describe(x) for x in r]
        return repr(r)[:300]
    except Exception as e:
        return 'undescribable %s: %s' % (type(r).__name__, e)


def _close(a, b, tol=TOL):
    return abs(a[0] - b[0]) <= tol and abs(a[1] - b[1]) <= tol and abs(a[2] - b[2]) <= tol


def match_points(obs, exp, tol=TOL):
    """one-to-one matching of observed float points with exact points."""
    exp = [_c(p) for p in exp]
    if len(obs) != len(exp):
        return False
    used = [False] * len(exp)
    for p in obs:
        for i, q in enumerate(exp):
            if not used[i] and _close(p, q, tol):
                used[i] = True
                break
        else:
            return False
    return True


def _finite(p):
    return all(isinstance(c, (int, float)) and math.isfinite(c) for c in p) or all(math.isfinite(float(c)) for c in p)


def matches(r, e, tol=TOL):
    """Does the library value r denote the exact set e?  Returns (ok, reason)."""
    if isinstance(r, Raised):
        return False, 'raises:' + r.cls
    if e is None:
        return (r is None), ('ok' if r is None else 'wrong-kind:%s/None' % tname(r))
    k = e[0]
    if r is None or type(r).__name__ != k:
        return False, 'wrong-kind:%s/%s' % (tname(r), k)
    try:
        if k == 'Point':
            ok = _close(_c(r), _c(e[1]), tol)
        elif k == 'Segment':
            ok = match_points([_c(r.start_point), _c(r.end_point)], [e[1], e[2]], tol)
        elif k == 'HalfLine':
            d = _c(e[2])
            v = _c(r.vector)
            cr = X.cross(v, d)
            ok = (_close(_c(r.point), _c(e[1]), tol)
                  and math.sqrt(X.n2(cr)) <= tol * math.sqrt(X.n2(v) * X.n2(d))
                  and X.dot(v, d) > 0)
        elif k == 'Line':
            d = _c(e[2])
            v = _c(r.dv)
            cr = X.cross(v, d)
            w = X.sub(_c(e[1]), _c(r.sv))
            off = X.cross(w, v)
            ok = (X.n2(v) > 0 and math.sqrt(X.n2(cr)) <= tol * math.sqrt(X.n2(v) * X.n2(d))
                  and math.sqrt(X.n2(off)) <= tol * math.sqrt(X.n2(v)) * max(1.0, math.sqrt(X.n2(w))))
        elif k == 'Plane':
            n = _c(e[2])
            m = _c(r.n)
            cr = X.cross(m, n)
            w = X.sub(_c(e[1]), _c(r.p))
            ok = (X.n2(m) > 0 and math.sqrt(X.n2(cr)) <= tol * math.sqrt(X.n2(m) * X.n2(n))
                  and abs(X.dot(w, m)) <= tol * math.sqrt(X.n2(m)) * max(1.0, math.sqrt(X.n2(w))))
        elif k == 'ConvexPolygon':
            ok = match_points([_c(p) for p in r.points], e[1], tol)
        elif k == 'ConvexPolyhedron':
            ok = match_points([_c(p) for p in r.point_set], e[1], tol)
            if ok:
                # the faces must also cover exactly the vertices (each face's points are model vertices)
                nf = len(X.hull_facets(tuple(e[1])))
                if len(r.convex_polygons) != nf:
                    return False, 'wrong-face-count:%d/%d' % (len(r.convex_polygons), nf)
        else:
            raise TypeError(k)
    except (AttributeError, TypeError, ValueError, IndexError) as ex:
        return False, 'malformed-result:%s' % type(ex).__name__
    return (ok, 'ok' if ok else 'wrong-value')


def close_rel(a, b, rel=1e-9, ab=1e-12):
    try:
        a = float(a)
        b = float(b)
    except (TypeError, ValueError):
        return False
    if not (math.isfinite(a) and math.isfinite(b)):
        return False
    return abs(a - b) <= rel * max(abs(a), abs(b)) + ab


def _r9(x):
    return round(x, 9) + 0.0


def canon(r):
    """representation-independent description of a library value (for differential
    comparison of two library answers): point sets sorted, lines / planes reduced to
    invariants of the set they denote."""
    try:
        if isinstance(r, Segment):
            return ['Segment', sorted([[_r9(c) for c in _c(r.start_point)], [_r9(c) for c in _c(r.end_point)]])]
        if isinstance(r, ConvexPolygon):
            return ['ConvexPolygon', sorted([_r9(c) for c in _c(p)] for p in r.points)]
        if isinstance(r, ConvexPolyhedron):
            return ['ConvexPolyhedron', sorted([_r9(c) for c in _c(p)] for p in r.point_set)]
        if isinstance(r, HalfLine):
            v = _c(r.vector)
            L = math.sqrt(X.n2(v))
            return ['HalfLine', list(_c(r.point)), [c / L for c in v]]
        if isinstance(r, Line):
            d = _c(r.dv)
            L = math.sqrt(X.n2(d))
            u = [c / L for c in d]
            s = _c(r.sv)
            t = X.dot(s, u)
            foot = [s[i] - t * u[i] for i in range(3)]
            sg = 1
            for c in u:
                if abs(c) > 1e-9:
                    sg = 1 if c > 0 else -1
                    break
            return ['Line', foot, [sg * c for c in u]]
        if isinstance(r, Plane):
            n = _c(r.n)
            L = math.sqrt(X.n2(n))
            u = [c / L for c in n]
            sg = 1
            for c in u:
                if abs(c) > 1e-9:
                    sg = 1 if c > 0 else -1
                    break
            return ['Plane', [sg * c for c in u], sg * X.dot(u, _c(r.p))]
        if isinstance(r, (set, frozenset)):
            return sorted((canon(x) for x in r), key=repr)
        if isinstance(r, (tuple, list)):
            return [canon(x) for x in r]
    except Exception as e:
        return 'uncanonical %s: %s' % (type(r).__name__, e)
    return describe(r)


def legal_prelude():
    """A history of perfectly legal operations on objects handed out by the library's own factories and on throw-away
    objects (in-place moves, coordinate assignment).  Every worker runs it before its scenes: nothing of it may leak into
    objects constructed later (shared singletons, module-level caches, aliased support points)."""
    from Geometry3D import origin, x_unit_vector, y_unit_vector, z_unit_vector, x_axis, y_axis, z_axis, xy_plane, yz_plane, xz_plane
    z = Vector.zero()
    Line(z, Vector(0.0, 0.0, 1.0)).move(Vector(1.0, 0.0, 0.0))        # Line(Vector, Vector) keeps and shifts its support vector
    z2 = Vector.zero()
    z2[0] = 1.0        # (were the zero vector a shared object, it would now be the most common direction of all, (1, 0, 0))
    o = origin()
    o.move(Vector(0.0, 1.0, 0.0))
    Line(origin(), Vector(1.0, 1.0, 0.0)).move(Vector(0.0, 0.0, 2.0))
    u = x_unit_vector()
    u[1] = 5.0
    for w in (y_unit_vector(), z_unit_vector()):
        w[0] = -1.0
    for ax, t in ((x_axis(), (0.0, 0.0, 1.0)), (y_axis(), (1.0, 0.0, 0.0)), (z_axis(), (0.0, 2.0, 0.0))):
        ax.move(Vector(*t))
    for pl, t in ((xy_plane(), (0.0, 0.0, 1.0)), (yz_plane(), (2.0, 0.0, 0.0)), (xz_plane(), (0.0, -1.0, 0.0))):
        pl.move(Vector(*t))
    # general-form planes through the origin, moved off it
    Plane(0.0, 0.0, 1.0, 0.0).move(Vector(0.0, 0.0, 1.0))
    Plane(1.0, 0.0, 0.0, 0.0).move(Vector(1.0, 0.0, 0.0))
    Plane(1.0, -1.0, 2.0, 0.0).move(Vector(0.0, 1.0, 0.0))
    Plane(0, 1, 0, 0).move(Vector(0, 1, 0))
    v = Vector(1.0, 2.0, 2.0)
    v.length(), v.normalized(), hash(v)
    v[0] = 0.0
    v.length()
    G.set_eps(1e-6)
    G.set_eps()
    G.set_sig_figures()
    assert_default_tolerance()


def use_point_elsewhere(pt):
    """legal earlier uses of a caller-owned Point: lines built from it are moved, it is hashed and read.
    Constructors that take Points must not let any of this leak back into the Point."""
    l = Line(pt, Vector(1.0, 2.0, 3.0))
    l.move(Vector(0.5, -4.0, 2.0))
    l2 = Line(pt, Point(float(pt[0]) + 1.0, float(pt[1]) - 2.0, float(pt[2]) + 0.5))
    l2.move(Vector(-3.0, 1.0, 1.0))
    sg = Segment(pt, Point(float(pt[0]) + 1.0, float(pt[1]) - 2.0, float(pt[2]) + 0.5))
    sg.move(Vector(2.0, -1.0, 0.5))
    hl = HalfLine(pt, Vector(1.0, 0.5, -2.0))
    hl.move(Vector(-1.0, 3.0, 1.0))
    hash(pt), list(pt.pv()), repr(pt)
    return pt
