"""Bounded-exhaustive model checking machinery for GouMinghao/Geometry3D (see /verif/DESIGN.md)."""
