"""Independent floating-point vertex enumeration for scenes whose coordinates are not
exactly representable (generic irrational poses, C03).  Used only under a general-position
margin decided here (never from library output)."""
import math
from itertools import combinations

from . import exact as X


def rot(axis, theta):
    """Rodrigues rotation matrix (floats)."""
    l = math.sqrt(sum(a * a for a in axis))
    x, y, z = (a / l for a in axis)
    c, s = math.cos(theta), math.sin(theta)
    C = 1 - c
    return ((c + x * x * C, x * y * C - z * s, x * z * C + y * s),
            (y * x * C + z * s, c + y * y * C, y * z * C - x * s),
            (z * x * C - y * s, z * y * C + x * s, c + z * z * C))


def fapply(M, t, p):
    return tuple(M[i][0] * p[0] + M[i][1] * p[1] + M[i][2] * p[2] + t[i] for i in range(3))


def fsub(a, b):
    return (a[0] - b[0], a[1] - b[1], a[2] - b[2])


def fdot(a, b):
    return a[0] * b[0] + a[1] * b[1] + a[2] * b[2]


def fcross(a, b):
    return (a[1] * b[2] - a[2] * b[1], a[2] * b[0] - a[0] * b[2], a[0] * b[1] - a[1] * b[0])


def fnorm(a):
    return math.sqrt(fdot(a, a))


def funit(a):
    l = fnorm(a)
    return (a[0] / l, a[1] / l, a[2] / l)


def body_constraints(exact_body, fverts):
    """unit-normal constraints (n, d, iseq, tag) of the float image of an exact body; the
    combinatorics (which vertices span which facet / edge) come from the exact body."""
    V = exact_body[1]
    idx = {v: i for i, v in enumerate(V)}
    cons = []
    cen = tuple(sum(p[k] for p in fverts) / len(fverts) for k in range(3))
    if exact_body[0] == 'ConvexPolyhedron':
        for n, d, on in X.hull_facets(V):
            a, b, c = fverts[on[0]], fverts[on[1]], fverts[on[2]]
            # pick a well-conditioned triple of the facet
            best = None
            for i, j, k in combinations(on, 3):
                nn = fcross(fsub(fverts[j], fverts[i]), fsub(fverts[k], fverts[i]))
                l = fnorm(nn)
                if best is None or l > best[0]:
                    best = (l, nn, fverts[i])
            nn = funit(best[1])
            dd = fdot(nn, best[2])
            if fdot(nn, cen) - dd > 0:
                nn = (-nn[0], -nn[1], -nn[2])
                dd = -dd
            cons.append((nn, dd, False))
        return cons
    nrm, cyc = X.poly_cycle(V)
    fc = [fverts[idx[v]] for v in cyc]
    best = None
    for i, j, k in combinations(range(len(fc)), 3):
        nn = fcross(fsub(fc[j], fc[i]), fsub(fc[k], fc[i]))
        l = fnorm(nn)
        if best is None or l > best[0]:
            best = (l, nn, fc[i])
    pn = funit(best[1])
    cons.append((pn, fdot(pn, best[2]), True))
    m = len(fc)
    for i in range(m):
        a, b = fc[i], fc[(i + 1) % m]
        out = funit(fcross(fsub(b, a), pn))
        dd = fdot(out, a)
        if fdot(out, cen) - dd > 0:
            out = (-out[0], -out[1], -out[2])
            dd = -dd
        cons.append((out, dd, False))
    return cons


def generic_intersection(consA, consB, scale, cond_min=0.05, margin=1e-3):
    """vertex set of the intersection in general position.  Returns (vertices, why_rejected)."""
    cons = [(n, d, e, 0) for n, d, e in consA] + [(n, d, e, 1) for n, d, e in consB]
    m = len(cons)
    verts = []
    for i, j, k in combinations(range(m), 3):
        ni, nj, nk = cons[i][0], cons[j][0], cons[k][0]
        cjk = fcross(nj, nk)
        D = fdot(ni, cjk)
        same_body = cons[i][3] == cons[j][3] == cons[k][3]
        if abs(D) < cond_min:
            if same_body or abs(D) < 1e-12:
                # three facets of one body that do not meet in a point well (or parallel): such a
                # triple can still define a body vertex together with a better conditioned triple
                continue
            # a badly conditioned mixed triple: only a problem if its point is (nearly) feasible; decide conservatively
            cki = fcross(nk, ni)
            cij = fcross(ni, nj)
            x = tuple((cons[i][1] * cjk[a] + cons[j][1] * cki[a] + cons[k][1] * cij[a]) / D for a in range(3))
            if all((fdot(n, x) - d <= margin * scale) and (not e or abs(fdot(n, x) - d) <= margin * scale) for n, d, e, b in cons):
                return None, 'ill-conditioned-vertex'
            continue
        cki = fcross(nk, ni)
        cij = fcross(ni, nj)
        x = tuple((cons[i][1] * cjk[a] + cons[j][1] * cki[a] + cons[k][1] * cij[a]) / D for a in range(3))
        ok = True
        for t, (n, d, e, b) in enumerate(cons):
            if t in (i, j, k):
                continue
            s = fdot(n, x) - d
            if abs(s) < margin * scale:
                # tight: fine only if it is an exact incidence inside one body (a body vertex where >3 facets meet)
                if same_body and b == cons[i][3] and abs(s) < 1e-9 * scale:
                    continue
                return None, 'near-incidence'
            if s > 0 or e:
                ok = False
                break
        if ok:
            if not any(max(abs(x[a] - v[a]) for a in range(3)) < 1e-9 * scale for v in verts):
                verts.append(x)
    return verts, None


def hash_band_ok(vals, band=5e-3, sig=10):
    for c in vals:
        x = c * 10 ** sig
        f = x - math.floor(x)
        if abs(f - 0.5) < band:
            return False
    return True
