"""Enumerations of vertex orders / face orders / face orientations shared by C06 and C09."""
from itertools import permutations, product, combinations

from . import exact as X, alphabet as A


def structured_perms(n):
    """rotations x reflections, all transpositions, all ordered choices of the first three."""
    out = []
    base = list(range(n))
    for r in range(n):
        rot = base[r:] + base[:r]
        out.append(tuple(rot))
        out.append(tuple(reversed(rot)))
    for i, j in combinations(range(n), 2):
        p = list(base)
        p[i], p[j] = p[j], p[i]
        out.append(tuple(p))
    for a, b, c in permutations(range(n), 3):
        rest = [k for k in base if k not in (a, b, c)]
        out.append(tuple([a, b, c] + rest))
    seen = []
    s = set()
    for p in out:
        if p not in s:
            s.add(p)
            seen.append(p)
    return seen


def polygon_perms(n, full_upto):
    if n <= full_upto:
        return list(permutations(range(n)))
    return structured_perms(n)


def face_variants(F, tier):
    """list of (face order, orientation bits)."""
    full_orders = 5 if tier == 'quick' else 6
    if F <= full_orders:
        orders = list(permutations(range(F)))
    else:
        base = list(range(F))
        orders = []
        for r in range(F):
            rot = base[r:] + base[:r]
            orders.append(tuple(rot))
            orders.append(tuple(reversed(rot)))
        if F <= 7 or tier != 'quick':
            for i, j in combinations(range(F), 2):
                p = list(base)
                p[i], p[j] = p[j], p[i]
                orders.append(tuple(p))
        orders = list(dict.fromkeys(orders))
    if F <= 8 and not (tier == 'quick' and F >= 7):
        orients = list(product((0, 1), repeat=F))
    else:
        # all single flips, all-0, all-1, alternating, and all pairs of flips
        orients = [tuple(0 for _ in range(F)), tuple(1 for _ in range(F)), tuple(i % 2 for i in range(F))]
        for i in range(F):
            orients.append(tuple(1 if k == i else 0 for k in range(F)))
        for i, j in combinations(range(F), 2):
            orients.append(tuple(1 if k in (i, j) else 0 for k in range(F)))
        orients = list(dict.fromkeys(orients))
    return orders, orients


def body_faces(o):
    """list of outward-CCW vertex cycles of a polyhedron."""
    return [cyc for n, cyc in X.facets_of(o)]
