"""Explorer engine E2: explicit-state breadth-first search whose transition function is
the real code.  A state is reached by replaying an operation list on freshly constructed
library objects; its key is a canonical snapshot; an invariant is evaluated in every state."""
import os
import multiprocessing
from collections import deque

from . import core, lib


class Machine:
    """Subclass and provide: initial(), letters(hist), build(hist) -> state, key(state, hist),
    invariant(state, hist) -> [Viol], max_depth."""
    name = '?'
    max_depth = 3

    def letters(self, hist):
        raise NotImplementedError

    def build(self, hist):
        raise NotImplementedError

    def key(self, state, hist):
        raise NotImplementedError

    def invariant(self, state, hist):
        return []

    def describe_hist(self, hist):
        return core.enc(tuple(hist))

    def observe(self, state, hist):
        """optional digest of the state's observable behaviour; must be identical along
        every history into the same state key (history independence)."""
        return None


def explore(machine):
    """BFS to machine.max_depth.  Returns dict(states, transitions, max_depth, viols, per_depth, sample)."""
    seen = {}
    viols = []
    transitions = 0
    per_depth = {}
    frontier = deque([()])
    st = _safe_build(machine, ())
    if isinstance(st, core.Viol):
        return {'states': 1, 'transitions': 0, 'max_depth': 0, 'viols': [st], 'per_depth': {0: 1}, 'outcomes': 1, 'sample': []}
    k0 = machine.key(st, ())
    seen[k0] = ()
    viols += _inv(machine, st, ())
    per_depth[0] = 1
    maxd = 0
    sample = []
    while frontier:
        hist = frontier.popleft()
        if len(hist) >= machine.max_depth:
            continue
        for ev in machine.letters(hist):
            nh = hist + (ev,)
            transitions += 1
            st = _safe_build(machine, nh)
            if isinstance(st, core.Viol):
                viols.append(st)
                continue
            vs = _inv(machine, st, nh)
            viols += vs
            k = machine.key(st, nh)
            if k not in seen:
                seen[k] = nh
                frontier.append(nh)
                per_depth[len(nh)] = per_depth.get(len(nh), 0) + 1
                maxd = max(maxd, len(nh))
                if len(sample) < 3 and len(nh) == machine.max_depth:
                    sample.append(machine.describe_hist(nh))
    return {'states': len(seen), 'transitions': transitions, 'max_depth': maxd, 'viols': viols, 'per_depth': per_depth, 'sample': sample}


def _safe_build(machine, hist):
    try:
        return machine.build(hist)
    except lib.ConstructionFailed as cf:
        return core.construction_viol(machine.prop, machine.name, machine.describe_hist(hist), cf)
    except lib.LibTimeout:
        return core.Viol('%s|%s|timeout' % (machine.prop, machine.name), machine.describe_hist(hist), None, 'timeout', 'history replay timed out')
    except core.HarnessError:
        raise
    except Exception as ex:  # noqa
        if not core._raised_in_library(ex):
            raise
        return _lib_raised(machine, hist, ex)


def _lib_raised(machine, hist, ex):
    # library code itself raised while a history of legal operations was replayed on valid objects
    return core.Viol('%s|%s|library-raised-while-replaying-a-history|%s' % (machine.prop, machine.name.split('/')[0], type(ex).__name__),
                     machine.describe_hist(hist), 'no exception', '%s: %s' % (type(ex).__name__, str(ex)[:200]), 'library code raised during history replay')


def _inv(machine, st, hist):
    try:
        return machine.invariant(st, hist)
    except lib.ConstructionFailed as cf:
        return [core.construction_viol(machine.prop, machine.name, machine.describe_hist(hist), cf)]
    except core.HarnessError:
        raise
    except Exception as ex:  # noqa
        if not core._raised_in_library(ex):
            raise
        return [_lib_raised(machine, hist, ex)]


_MACHINES = None
_PRELUDE_PID = None


def _job(arg):
    """build one history, evaluate the invariant, return the state key digest."""
    import hashlib
    mi, hist = arg
    m = _MACHINES[mi]
    global _PRELUDE_PID
    try:
        if _PRELUDE_PID != os.getpid():      # once per worker process
            lib.legal_prelude()
            _PRELUDE_PID = os.getpid()
    except Exception as ex:  # noqa
        if not core._raised_in_library(ex):
            raise
        v = _lib_raised(m, hist, ex)
        v.family = m.name
        return mi, hist, None, [v]
    st = _safe_build(m, hist)
    if isinstance(st, core.Viol):
        st.family = m.name
        return mi, hist, None, [st]
    # the key is taken before the invariant runs: the invariant's own queries must not be
    # able to hide (or create) state differences such as primed caches
    k = hashlib.sha1(repr(m.key(st, hist)).encode()).hexdigest()
    vs = _inv(m, st, hist)
    for v in vs:
        v.family = m.name
    ob = m.observe(st, hist)
    if ob is not None:
        k = (k, ob)      # ob = (observation key, digest)
    return mi, hist, k, vs


def run_machines(prop, machines, seed=0, nproc=None):
    """level-synchronous BFS of several independent machines, the (history, letter)
    expansions of one level being executed in parallel; returns a core.Result."""
    global _MACHINES
    _MACHINES = machines
    nproc = nproc or core.NPROC
    res = core.Result(prop)
    seen = [dict() for _ in machines]
    obs = [dict() for _ in machines]
    trans = [0] * len(machines)
    per_depth = [dict() for _ in machines]
    maxd = [0] * len(machines)
    sample = [None] * len(machines)
    ctx = multiprocessing.get_context('fork')
    pool = ctx.Pool(nproc) if nproc > 1 else None
    try:
        jobs = [(mi, ()) for mi in range(len(machines))]
        depth = 0
        while jobs:
            k = seed % len(jobs)
            order = jobs[k:] + jobs[:k]
            it = pool.imap_unordered(_job, order, chunksize=max(1, len(order) // (nproc * 8))) if pool else map(_job, order)
            outs = sorted(it, key=lambda o: (o[0], len(o[1]), repr(o[1])))
            nxt = []
            for mi, hist, key, vs in outs:
                m = machines[mi]
                if depth > 0:
                    trans[mi] += 1
                for v in vs:
                    res.add_viol(v)
                if isinstance(key, tuple):
                    key, (okey, ob) = key
                    if okey in obs[mi] and obs[mi][okey][0] != ob:
                        res.add_viol(core.Viol('%s|%s|history-dependent-behaviour' % (prop, m.name), m.describe_hist(hist),
                                               'same behaviour as after history %r' % (obs[mi][okey][1],), 'different observation digest',
                                               'two histories reach the same state but behave differently', family=m.name))
                    obs[mi].setdefault(okey, (ob, hist))
                if key is None or key in seen[mi]:
                    continue
                seen[mi][key] = hist
                per_depth[mi][depth] = per_depth[mi].get(depth, 0) + 1
                maxd[mi] = max(maxd[mi], depth)
                sample[mi] = hist
                if depth < m.max_depth:
                    for ev in m.letters(hist):
                        nxt.append((mi, hist + (ev,)))
            jobs = nxt
            depth += 1
    finally:
        if pool:
            pool.close()
            pool.join()
    res.states = sum(len(s_) for s_ in seen)
    res.transitions = sum(trans)
    res.extra['machines'] = {}
    for mi, m in enumerate(machines):
        res.extra['machines'][m.name] = {'states': len(seen[mi]), 'transitions': trans[mi], 'max_depth': maxd[mi],
                                         'states_per_depth': {str(k_): v for k_, v in per_depth[mi].items()}, 'bound': m.max_depth}
        if sample[mi] is not None and len(res.samples) < 10:
            res.samples.append({'machine': m.name, 'history': m.describe_hist(sample[mi])})
    res.evals = res.transitions
    res.nontrivial = res.states
    res.traces = res.transitions
    res.extra['distinct_observation_keys'] = sum(len(o) for o in obs)
    lib.assert_default_tolerance()
    return res
