"""Finite alphabets: lattice boxes, direction sets, exact poses, body catalogue, feature
points, the 48 signed axis permutations.  All sizes are reported in the evidence."""
from fractions import Fraction as F
from itertools import product, permutations

from . import exact as X


def box(nx, ny, nz, step=1):
    step = F(step)
    rx = [i * step for i in range(int(nx / step) + 1)]
    ry = [i * step for i in range(int(ny / step) + 1)]
    rz = [i * step for i in range(int(nz / step) + 1)]
    pts = [(x, y, z) for x in rx for y in ry for z in rz]
    # simplest first
    pts.sort(key=lambda p: (max(abs(c) for c in p), sum(abs(c) for c in p), p))
    return [tuple(int(c) if F(c).denominator == 1 else c for c in p) for p in pts]


B0 = box(3, 1, 1)          # 16 points
B1 = box(3, 2, 1)          # 24 points
B2 = box(3, 3, 2)          # 48 points
B0H = box(3, 1, 1, F(1, 2))  # 63 points


def _prim(v):
    from math import gcd
    g = gcd(gcd(abs(v[0]), abs(v[1])), abs(v[2]))
    return g == 1


def directions(maxnorm, signed=True, primitive=True):
    out = []
    rng = range(-maxnorm, maxnorm + 1)
    for v in product(rng, rng, rng):
        if v == (0, 0, 0):
            continue
        if primitive and not _prim(v):
            continue
        if not signed:
            first = next(c for c in v if c != 0)
            if first < 0:
                continue
        out.append(v)
    out.sort(key=lambda v: (max(abs(c) for c in v), sum(abs(c) for c in v), tuple(-c for c in v)))
    return out


D1 = directions(1)                 # 26
D1U = directions(1, signed=False)  # 13
D2 = directions(2)                 # 98
D2U = directions(2, signed=False)  # 49
D3ALL = directions(3, primitive=False)  # 342


class Pose:
    def __init__(self, name, M, s=1, t=(0, 0, 0)):
        self.name, self.M, self.s, self.t = name, M, F(s), tuple(F(c) for c in t)

    def __call__(self, o):
        return X.xform(o, self.M, self.s, self.t)

    def point(self, p):
        return X.add(X.scal(self.s, X.mat_apply(self.M, p)), self.t)

    def vec(self, d):
        return X.scal(self.s, X.mat_apply(self.M, d))


_T = (F(-3, 2), F(1, 4), F(-1))
P0 = Pose('P0', ((1, 0, 0), (0, 1, 0), (0, 0, 1)))
# the lattice shifted so that coordinates -1 and -2 occur together (CPython: hash(-1) == hash(-2), which any
# hash-keyed shortcut in the library confuses); unit bodies land on [0,1]^2 x [-2,-1]
PZ = Pose('PZ', ((1, 0, 0), (0, 1, 0), (0, 0, 1)), 1, (0, 0, -2))
P1 = Pose('P1', ((1, 2, 2), (2, 1, -2), (2, -2, 1)), F(1, 2), _T)       # 3/2 x isometry
P2 = Pose('P2', ((2, 3, 6), (3, -6, 2), (6, 2, -3)), F(1, 4), _T)       # 7/4 x isometry
P3 = Pose('P3', ((1, 1, 0), (1, 0, 1), (-1, 1, 1)), 1, _T)              # oblique lattice map
# the xy-plane goes to an upright plane whose horizontal direction is (9,7)/4: the ratio 9/7 does not multiply back
# exactly in floating point (fl(fl(9/7)*7*m/4) != 9*m/4 for m = 3, 6, 7), which exposes eliminations that divide by
# rounding noise when y is the pivot (7/9 does multiply back exactly: see P5 for the x-pivot case)
P4 = Pose('P4', ((9, 0, 7), (7, 0, -9), (0, 4, 0)), F(1, 4), (F(-1, 4), F(-5, 2), F(-9, 4)))
# same idea with horizontal direction (11,15)/4: fl(fl(15/11)*11*m/4) != 15*m/4 already for m = 1, 2, 4, so the
# noise appears for the shortest lattice directions
P5 = Pose('P5', ((11, 0, 15), (15, 0, -11), (0, 4, 0)), F(1, 4), (F(-1, 4), F(-5, 2), F(-9, 4)))
POSES = {'P0': P0, 'PZ': PZ, 'P1': P1, 'P2': P2, 'P3': P3, 'P4': P4, 'P5': P5}


def poses(tier):
    return [PZ, P1] if tier == 'quick' else [P0, PZ, P1, P2, P3, P4]


# --------------------------------------------------------------------------- bodies

def _z(pts2, z=0):
    return tuple((x, y, z) for x, y in pts2)


POLYGONS = {
    'triangle': _z([(0, 0), (2, 0), (0, 2)]),
    'right-triangle': _z([(0, 0), (3, 0), (0, 1)]),
    'square': _z([(0, 0), (2, 0), (2, 2), (0, 2)]),
    'rectangle': _z([(0, 0), (3, 0), (3, 1), (0, 1)]),
    'parallelogram': _z([(0, 0), (2, 0), (3, 1), (1, 1)]),
    'trapezoid': _z([(0, 0), (3, 0), (2, 1), (1, 1)]),
    'pentagon': _z([(0, 0), (2, 0), (3, 1), (1, 2), (0, 1)]),
    'hexagon': _z([(0, 0), (1, 0), (2, 1), (2, 2), (1, 2), (0, 1)]),
    'heptagon': _z([(0, 0), (1, 0), (2, 1), (2, 2), (1, 3), (0, 3), (-1, 1)]),
    'octagon': _z([(1, 2), (2, 1), (2, -1), (1, -2), (-1, -2), (-2, -1), (-2, 1), (-1, 2)]),
    # a genuine vertex where the boundary turns by only 0.06 rad (far outside the tolerance band, but "nearly straight")
    'near-straight': _z([(0, 0), (4, 0), (8, F(1, 4)), (8, 4), (0, 4)]),
}

POLYHEDRA = {
    'tetrahedron': ((0, 0, 0), (2, 0, 0), (0, 2, 0), (0, 0, 2)),

    'box': tuple(product((0, 2), (0, 1), (0, 1))),
    'cube': tuple(product((0, 2), (0, 2), (0, 2))),
    'prism': ((0, 0, 0), (2, 0, 0), (0, 2, 0), (0, 0, 1), (2, 0, 1), (0, 2, 1)),
    'pyramid': ((0, 0, 0), (2, 0, 0), (2, 2, 0), (0, 2, 0), (1, 1, 2)),
    'octahedron': ((1, 0, 0), (-1, 0, 0), (0, 1, 0), (0, -1, 0), (0, 0, 1), (0, 0, -1)),
    'penta-pyramid': ((0, 0, 0), (2, 0, 0), (3, 1, 0), (1, 2, 0), (0, 1, 0), (1, 1, 2)),
    'hexa-pyramid': ((0, 0, 0), (1, 0, 0), (2, 1, 0), (2, 2, 0), (1, 2, 0), (0, 1, 0), (1, 1, 1)),
    'cut-cube': ((0, 0, 0), (2, 0, 0), (0, 2, 0), (0, 0, 2), (2, 2, 0), (2, 0, 2), (0, 2, 2),
                 (2, 2, 1), (2, 1, 2), (1, 2, 2)),
    'unit-cube': tuple(product((0, 1), (0, 1), (0, 1))),
    'unit-tetra': ((0, 0, 0), (1, 0, 0), (0, 1, 0), (0, 0, 1)),
    'unit-prism': ((0, 0, 0), (1, 0, 0), (0, 1, 0), (0, 0, 1), (1, 0, 1), (0, 1, 1)),
    # two different oblique parallelepipeds that have a face in the plane 3y + 4z = 0 (parallel to the x axis, not to y or z)
    'para-A': tuple(X.add(X.add(X.scal(i, (-2, -2, F(3, 2))), X.scal(j, (1, 0, 0))), X.scal(k, (1, F(3, 2), 2))) for i in (0, 1) for j in (0, 1) for k in (0, 1)),
    'para-B': tuple(X.add((F(1, 4), 1, F(-3, 4)), X.add(X.add(X.scal(i, (-2, 2, F(-3, 2))), X.scal(j, (2, -4, 3))), X.scal(k, (-1, F(-3, 2), -2)))) for i in (0, 1) for j in (0, 1) for k in (0, 1)),
    'spire': ((0, 0, 0), (1, 0, 0), (2, 1, 0), (2, 2, 0), (1, 2, 0), (0, 1, 0), (1, 1, 8)),
    'skew-tetra': ((0, 0, 0), (2, 0, 0), (0, 2, 0), (6, 6, 2)),
    'skew-prism': ((0, 0, 0), (2, 0, 0), (0, 2, 0), (3, 3, 1), (5, 3, 1), (3, 5, 1)),
    'hull7': ((0, 0, 0), (3, 0, 0), (0, 2, 0), (3, 2, 0), (1, 0, 2), (0, 2, 1), (2, 1, 2)),
    'hull8': ((0, 0, 0), (2, 0, 0), (3, 2, 0), (0, 2, 0), (0, 0, 1), (2, 0, 2), (2, 2, 2), (0, 1, 2)),
}


# bodies used by a few dedicated families only (not part of the catalogue that the thorough tiers sweep)
EXTRA_POLYHEDRA = {
    # two slabs of height 1 on z = 0, the second rotated about z (edges (2,3,0), (-3,2,0)): coplanar overlapping top and bottom faces
    'slab-A': tuple((x, y, z) for x in (0, 3) for y in (-1, 4) for z in (0, 1)),
    'slab-B': tuple((-1 + 2 * i - 3 * j, -1 + 3 * i + 2 * j, k) for i in (0, 1) for j in (0, 1) for k in (0, 1)),
}
EXTRA_POLYGONS = {
    # two parallelograms in generic crossing position whose planes meet in a line perpendicular to x (direction (0,3,1))
    'pgm-A': ((3, 2, 0), (1, 0, 3), (1, -3, 2), (3, -1, -1)),
    'pgm-B': ((1, -1, 2), (3, 0, 0), (3, 3, 1), (1, 2, 3)),
}


def polygon(name):
    return X.Pg(POLYGONS[name] if name in POLYGONS else EXTRA_POLYGONS[name])


def polyhedron(name):
    return X.Ph(POLYHEDRA[name] if name in POLYHEDRA else EXTRA_POLYHEDRA[name])


def body(name):
    return polygon(name) if (name in POLYGONS or name in EXTRA_POLYGONS) else polyhedron(name)


QUICK_BODIES = ['triangle', 'hexagon', 'tetrahedron', 'cut-cube', 'unit-cube']
SKEW_BODIES = ['skew-tetra', 'skew-prism']


def validate_catalogue():
    for k, v in POLYGONS.items():
        assert X.rank_pts(v) == 2 and X.is_convex_position(v), k
    for k, v in POLYHEDRA.items():
        assert X.rank_pts(v) == 3 and X.is_convex_position(v), k


def mid(a, b):
    return tuple(F(a[i] + b[i], 2) for i in range(3))


def feature_points(o, offsets=(F(1, 2), F(1, 64)), far=True):
    """list of (label, point): vertices, edge midpoints, face-interior points, interior
    point, each pushed outward from the centre by the given relative offsets, far points."""
    c = X.interior_point(o)
    out = []
    for v in o[1]:
        out.append(('vertex', X.frv(v)))
    for a, b in X.edges_of(o):
        out.append(('edge', mid(a, b)))
        out.append(('edge', tuple(F(3 * a[i] + b[i], 4) for i in range(3))))
    if o[0] == 'ConvexPolyhedron':
        for n, cyc in X.facets_of(o):
            a, b, c_ = cyc[0], cyc[1], cyc[2]
            out.append(('face', tuple(F(2 * a[i] + b[i] + c_[i], 4) for i in range(3))))
            m = len(cyc)
            out.append(('face', tuple(sum(F(v[i]) for v in cyc) / m for i in range(3))))
    out.append(('interior', c))
    base = list(out)
    for lab, p in base:
        if lab == 'interior':
            continue
        w = X.sub(p, c)
        for k in offsets:
            out.append(('outside-%s-%s' % (lab, k), X.add(p, X.scal(k, w))))
            out.append(('inside-%s-%s' % (lab, k), X.sub(p, X.scal(k, w))))
    if o[0] == 'ConvexPolygon':
        n = X.plane_normal_of(o[1])
        nn = X.clear(n)
        for lab, p in base:
            out.append(('off-plane-' + lab, X.add(p, X.scal(F(1, 2), nn))))
            out.append(('off-plane-' + lab, X.sub(p, X.scal(F(1, 64), nn))))
    if far:
        out.append(('far', X.add(c, (7, -5, 6))))
    # dedupe keeping first label
    seen = {}
    for lab, p in out:
        seen.setdefault(p, lab)
    return [(lab, p) for p, lab in seen.items()]


# --------------------------------------------------------------------------- cube symmetries

def g48():
    out = []
    for perm in permutations(range(3)):
        for signs in product((1, -1), repeat=3):
            M = tuple(tuple(signs[i] if j == perm[i] else 0 for j in range(3)) for i in range(3))
            out.append(M)
    return out


G48 = g48()


def with_int_mode(fams, tier):
    """Lattice (P0) families pass integral coordinates to the library as Python ints: in the
    quick tier instead of floats (the oblique poses keep floats), in the thorough tier in
    addition to floats.  The explorer switches mc.lib.MODE on the '#int' suffix."""
    import copy
    out = []
    for f in fams:
        if f.name.endswith('/P0') or f.name.endswith('/PZ'):
            g = copy.copy(f)
            # quick: the shifted lattice with int coordinates through the alternative constructor forms
            # (Line(P,P), Segment(P,V), Plane(a,b,c,d) ...); thorough: every combination
            g.name = f.name + ('#int#formB' if (tier == 'quick' and f.name.endswith('/PZ')) else '#int')
            if tier != 'quick':
                out.append(f)
                if f.name.endswith('/PZ'):
                    h = copy.copy(f)
                    h.name = f.name + '#int#formB'
                    out.append(h)
            out.append(g)
        elif f.name.endswith('/P1'):
            # oblique pose: quick tier through form D (Line(V,V), Plane(P,v,w), ...), thorough tier through all forms
            if tier == 'quick':
                g = copy.copy(f)
                g.name = f.name + '#formD'
                out.append(g)
            else:
                out.append(f)
                for form in ('#formB', '#formC', '#formD'):
                    h = copy.copy(f)
                    h.name = f.name + form
                    out.append(h)
        else:
            out.append(f)
    return out
