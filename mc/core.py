"""Explorer engine E1 (sharded product enumerator), result aggregation, violation
signatures, replay files, known findings and the evidence writer."""
import fnmatch
import hashlib
import json
import multiprocessing
import os
import signal
import sys
import time
import zlib
from collections import Counter
from fractions import Fraction as F

from . import lib

ROOT = os.path.dirname(os.path.dirname(os.path.abspath(__file__)))
NPROC = int(os.environ.get('VERIF_NPROC', '16'))
MAX_PER_SIG = 3


class HarnessError(Exception):
    pass


# ----------------------------------------------------------------------------- codec

def enc(x):
    """scene -> JSON-able.  Fractions/ints become strings, tuples lists, tags stay strings
    (tags never look like numbers)."""
    if x is None or isinstance(x, bool):
        return x
    if isinstance(x, int):
        return str(x)
    if isinstance(x, F):
        return str(x)
    if isinstance(x, float):
        return {'f': x.hex()}
    if isinstance(x, str):
        return x
    if isinstance(x, (tuple, list)):
        return [enc(y) for y in x]
    if isinstance(x, dict):
        return {'d': [[enc(k), enc(v)] for k, v in x.items()]}
    raise TypeError('cannot encode %r' % (x,))


def _isnum(s):
    t = s[1:] if s[:1] == '-' else s
    if not t:
        return False
    a, _, b = t.partition('/')
    return a.isdigit() and (b == '' or b.isdigit())


def dec(x):
    if x is None or isinstance(x, bool):
        return x
    if isinstance(x, str):
        if _isnum(x):
            v = F(x)
            return int(v) if v.denominator == 1 else v
        return x
    if isinstance(x, list):
        return tuple(dec(y) for y in x)
    if isinstance(x, dict):
        if 'f' in x:
            return float.fromhex(x['f'])
        if 'd' in x:
            return {dec(k): dec(v) for k, v in x['d']}
    raise TypeError('cannot decode %r' % (x,))


# ----------------------------------------------------------------------------- violations

class Viol:
    __slots__ = ('sig', 'family', 'scene', 'expected', 'observed', 'msg')

    def __init__(self, sig, scene=None, expected=None, observed=None, msg='', family=None):
        self.sig = sig
        self.family = family
        self.scene = scene
        self.expected = expected
        self.observed = observed
        self.msg = msg

    def to_json(self):
        return {'signature': self.sig, 'family': self.family, 'scene': self.scene,
                'expected': self.expected, 'observed': self.observed, 'message': self.msg}


class Family:
    """One enumerated scene family.  Subclasses provide shards(), scenes(shard), eval(scene).
    eval returns (cell, [Viol]) where cell is the *oracle's* classification of the scene,
    or ('skip:<why>', []) when the admission guard rejects it."""
    name = '?'
    trivial_cells = ()
    scene_timeout = 60.0

    def shards(self):
        raise NotImplementedError

    def scenes(self, shard):
        raise NotImplementedError

    def eval(self, scene):
        raise NotImplementedError

    def enc_scene(self, scene):
        return enc(scene)

    def dec_scene(self, j):
        return dec(j)

    def nontrivial(self, cell):
        return cell not in self.trivial_cells


class Result:
    def __init__(self, prop):
        self.prop = prop
        self.evals = 0
        self.nontrivial = 0
        self.cells = {}          # family -> Counter
        self.skipped = Counter()
        self.viols = {}          # sig -> [Viol]
        self.viol_counts = Counter()
        self.samples = []
        self.extra = {}          # extra coverage keys
        self.assumptions = []
        self.exhaustive = True
        self.states = None
        self.transitions = None
        self.traces = None
        self.rule = ''
        self.alphabets = {}

    def add_viol(self, v):
        self.viol_counts[v.sig] += 1
        lst = self.viols.setdefault(v.sig, [])
        if len(lst) < 40:
            lst.append(v)

    def cell(self, fam, cell, n=1):
        self.cells.setdefault(fam, Counter())[cell] += n


# ----------------------------------------------------------------------------- E1 workers

_FAMS = None
_PROP = '?'


def construction_viol(prop, famname, scene, cf):
    return Viol('%s|%s|operand-construction|%s|raises:%s' % (prop, famname.split('/')[0], cf.kind, cf.cls), scene,
                'a valid %s is constructible' % cf.kind, str(cf)[:300],
                'public constructor raised on a valid operand: %s' % str(cf)[:200])


def _on_alarm(signum, frame):
    raise lib.LibTimeout()


def _raised_in_library(ex):
    import traceback
    tb = traceback.extract_tb(ex.__traceback__)
    return bool(tb) and os.path.realpath(tb[-1].filename).startswith(os.path.realpath(lib.PKG_DIR) + os.sep)


def _run_shard(job):
    fi, si = job
    fam = _FAMS[fi]
    shard = fam.shards()[si]
    evals = 0
    nontriv = 0
    cells = Counter()
    skipped = Counter()
    viols = {}
    vcount = Counter()
    crc = 0
    samples = {}
    signal.signal(signal.SIGALRM, _on_alarm)
    lib.MODE = 'int' if '#int' in fam.name else 'float'
    lib.FORM = next((f for f in 'BCD' if '#form' + f in fam.name), 'A')
    try:
        lib.legal_prelude()
    except Exception as ex:  # noqa
        if not _raised_in_library(ex):
            raise
        v = Viol('%s|%s|legal-prelude-raised|%s' % (_PROP, fam.name.split('/')[0], type(ex).__name__), enc(('prelude',)), 'no exception',
                 '%s: %s' % (type(ex).__name__, str(ex)[:200]), 'the prelude of legal operations on factory objects raised inside the library')
        v.family = fam.name
        viols[v.sig] = [v]
        vcount[v.sig] += 1
    for scene in fam.scenes(shard):
        signal.setitimer(signal.ITIMER_REAL, fam.scene_timeout)
        try:
            cell, vs = fam.eval(scene)
        except lib.LibTimeout:
            cell, vs = 'timeout', [Viol('%s|%s|timeout' % (_PROP, fam.name.split('/')[0]), fam.enc_scene(scene), None, 'timeout',
                                        'library call did not return within %gs' % fam.scene_timeout)]
        except lib.ConstructionFailed as cf:
            cell, vs = 'operand-construction-failed', [construction_viol(_PROP, fam.name, fam.enc_scene(scene), cf)]
        except HarnessError:
            raise
        except Exception as ex:  # noqa
            # an exception that ORIGINATES inside the library's own code while the harness drives it with valid arguments
            # (a move, a constructor, a setter outside lib.call) is the library failing, not the harness; anything raised
            # by harness code stays a harness error
            if not _raised_in_library(ex):
                raise
            cell, vs = 'library-raised', [Viol('%s|%s|library-raised-outside-a-wrapped-call|%s' % (_PROP, fam.name.split('/')[0], type(ex).__name__),
                                               fam.enc_scene(scene), 'no exception', '%s: %s' % (type(ex).__name__, str(ex)[:200]),
                                               'library code raised while the harness was building / driving the scene')]
        finally:
            signal.setitimer(signal.ITIMER_REAL, 0)
        if cell.startswith('skip:'):
            skipped[cell] += 1
            continue
        evals += 1
        cells[cell] += 1
        if fam.nontrivial(cell):
            nontriv += 1
        if cell not in samples:
            samples[cell] = fam.enc_scene(scene)
        crc = zlib.crc32(('%s/%d;' % (cell, len(vs))).encode(), crc)
        for v in vs:
            v.family = fam.name
            vcount[v.sig] += 1
            lst = viols.setdefault(v.sig, [])
            if len(lst) < MAX_PER_SIG:
                lst.append(v)
    return fi, si, evals, nontriv, cells, skipped, viols, vcount, crc, samples


def run_families(prop, families, seed=0, nproc=None):
    """Exhaustively evaluate every scene of every family; returns a Result."""
    global _FAMS, _PROP
    _FAMS = families
    _PROP = prop
    nproc = nproc or NPROC
    jobs = []
    for fi, fam in enumerate(families):
        for si in range(len(fam.shards())):
            jobs.append((fi, si))
    if not jobs:
        raise HarnessError('no shards')
    # determinism self-check: first shard twice, in-process
    first = _run_shard(jobs[0])
    again = _run_shard(jobs[0])
    if (first[8] != again[8] or first[2] != again[2]) and not (first[6] or again[6]):
        # (if either run already shows violations, a history-dependent library is the likelier cause: carry on and report them)
        raise HarnessError('harness nondeterministic on shard %r' % (jobs[0],))
    # VERIF_SEED only rotates the dispatch order
    k = seed % len(jobs)
    order = jobs[k:] + jobs[:k]
    res = Result(prop)
    ctx = multiprocessing.get_context('fork')
    outs = {}
    if nproc == 1 or len(order) == 1:
        for j in order:
            o = _run_shard(j)
            outs[(o[0], o[1])] = o
    else:
        with ctx.Pool(min(nproc, len(order))) as pool:
            for o in pool.imap_unordered(_run_shard, order, chunksize=1):
                outs[(o[0], o[1])] = o
    digest = 0
    for key in sorted(outs):
        fi, si, evals, nontriv, cells, skipped, viols, vcount, crc, samples = outs[key]
        fam = families[fi]
        res.evals += evals
        res.nontrivial += nontriv
        res.cells.setdefault(fam.name, Counter()).update(cells)
        res.skipped.update({'%s:%s' % (fam.name, k_): v for k_, v in skipped.items()})
        for sig, lst in viols.items():
            for v in lst:
                dst = res.viols.setdefault(sig, [])
                if len(dst) < MAX_PER_SIG:
                    dst.append(v)
        res.viol_counts.update(vcount)
        digest = zlib.crc32(('%d/%d/%d;' % (fi, si, crc)).encode(), digest)
        for cell, sc in samples.items():
            if len(res.samples) < 12 and not any(s.get('cell') == cell and s.get('family') == fam.name for s in res.samples):
                res.samples.append({'family': fam.name, 'cell': cell, 'scene': sc})
    res.extra['digest'] = digest
    res.extra['shards'] = len(jobs)
    lib.assert_default_tolerance()
    return res


# ----------------------------------------------------------------------------- known findings / output

def load_known():
    path = os.path.join(ROOT, 'known_findings.json')
    if not os.path.exists(path):
        return []
    with open(path) as f:
        return json.load(f).get('findings', [])


def repo_commit():
    try:
        import subprocess
        return subprocess.run(['git', '-C', lib.REPO, 'rev-parse', 'HEAD'], capture_output=True, text=True).stdout.strip()
    except Exception:
        return '?'


def finish(res, tier, seed, level, t0, technique=''):
    """Print VIOLATION / KNOWN-FINDING lines, write replay files and the evidence file;
    returns the process exit code."""
    prop = res.prop
    known = [k for k in load_known() if k.get('property') == prop and k.get('status') == 'known']
    unlisted = 0
    commit = None
    for sig in sorted(res.viols):
        # simplest witness first
        vs = sorted(res.viols[sig], key=lambda v: len(json.dumps(v.scene, default=str)))[:MAX_PER_SIG]
        hit = next((k for k in known if fnmatch.fnmatchcase(sig, k['signature'])), None)
        if hit is not None:
            print('KNOWN-FINDING: property=%s %s [%s] (%d cases)' % (prop, hit.get('what', ''), sig, res.viol_counts[sig]))
            continue
        unlisted += 1
        if commit is None:
            commit = repo_commit()
        d = os.path.join(ROOT, 'replays', prop)
        os.makedirs(d, exist_ok=True)
        h = hashlib.sha1(sig.encode()).hexdigest()[:12]
        path = os.path.join(d, h + '.json')
        v = vs[0]
        with open(path, 'w') as f:
            json.dump({'property': prop, 'signature': sig, 'repo_commit': commit, 'tier': tier,
                       'count': res.viol_counts[sig], 'family': v.family, 'scene': v.scene,
                       'expected': v.expected, 'observed': v.observed, 'message': v.msg,
                       'more': [x.to_json() for x in vs[1:]]}, f, indent=1, default=str)
        print('VIOLATION property=%s replay=%s' % (prop, path))
        print('  signature: %s  (%d cases)  %s' % (sig, res.viol_counts[sig], v.msg))
    wall = time.time() - t0
    cov = {
        'evaluations': int(res.evals),
        'distinct_nontrivial': int(res.nontrivial),
        'rule': res.rule,
        'samples': res.samples[:12] or [{'note': 'no sample recorded'}],
        'exhaustive': bool(res.exhaustive),
        'cells': {fam: dict(sorted(c.items())) for fam, c in res.cells.items()},
        'cells_populated': sum(len(c) for c in res.cells.values()),
        'skipped_by_guard': dict(res.skipped),
        'alphabets': res.alphabets,
        'violation_signatures': {s: int(n) for s, n in res.viol_counts.items()},
        'technique': technique,
    }
    if res.states is not None:
        cov['states'] = int(res.states)
        cov['transitions'] = int(res.transitions)
        cov['traces_validated_against_impl'] = int(res.traces if res.traces is not None else res.transitions)
    else:
        cov['traces_validated_against_impl'] = int(res.evals)
    cov.update(res.extra)
    ev = {
        'property_id': prop, 'tier': tier, 'seed': int(seed), 'level': level, 'coverage': cov,
        'assumptions': res.assumptions + [
            'PYTHONHASHSEED=%s pinned (set iteration order is an owned environment variable)' % os.environ.get('PYTHONHASHSEED'),
            'library tolerance at default (eps=1e-10, 10 significant figures) unless the check varies it itself',
            'exact rational reference model mc/exact.py and comparison tolerances of mc/lib.py are trusted',
        ],
        'wall_s': round(wall, 3), 'violations': int(unlisted),
    }
    out_path = os.environ.get('VERIF_EVIDENCE_OUT')
    if not out_path:
        os.makedirs(os.path.join(ROOT, 'evidence'), exist_ok=True)
        out_path = os.path.join(ROOT, 'evidence', prop + '.json')
    with open(out_path, 'w') as f:
        json.dump(ev, f, indent=1, default=str)
    print('%s tier=%s evaluations=%d nontrivial=%d cells=%d skipped=%d unlisted_violations=%d wall=%.1fs' % (
        prop, tier, res.evals, res.nontrivial, cov['cells_populated'], sum(res.skipped.values()), unlisted, wall))
    return 1 if unlisted else 0
