"""Machinery self-checks run by MANIFEST.setup_cmd (nothing to build: pure Python)."""
import sys


def main():
    from . import lib, exact, core  # noqa
    lib.assert_binding()
    lib.assert_default_tolerance()
    print('selftest ok')
    return 0


if __name__ == '__main__':
    sys.exit(main())
