"""Exact rational reference model ("the model") for Geometry3D.

Objects are tagged tuples over ints / fractions.Fraction:

    ('Point', p)            ('Line', p, d)         ('HalfLine', p, d)
    ('Segment', p, q)       ('Plane', p, n)
    ('ConvexPolygon', verts)      verts: tuple of coplanar points in convex position
    ('ConvexPolyhedron', verts)   verts: tuple of points in convex position (hull implied)

Nothing here uses floats or tolerances (square roots only in the float-valued measure
helpers at the very end).  Every sign predicate that decides a relation also reports its
normalised magnitude to the admission guard (see `Guard`).
"""
from fractions import Fraction as F
from functools import lru_cache, cmp_to_key
from itertools import combinations
from math import gcd, inf, sqrt
import decimal

# --------------------------------------------------------------------------- vectors

ZERO = (0, 0, 0)


def sub(a, b):
    return (a[0] - b[0], a[1] - b[1], a[2] - b[2])


def add(a, b):
    return (a[0] + b[0], a[1] + b[1], a[2] + b[2])


def dot(a, b):
    return a[0] * b[0] + a[1] * b[1] + a[2] * b[2]


def cross(a, b):
    return (a[1] * b[2] - a[2] * b[1], a[2] * b[0] - a[0] * b[2], a[0] * b[1] - a[1] * b[0])


def scal(k, a):
    return (k * a[0], k * a[1], k * a[2])


def neg(a):
    return (-a[0], -a[1], -a[2])


def n2(a):
    return a[0] * a[0] + a[1] * a[1] + a[2] * a[2]


def det3(a, b, c):
    return dot(a, cross(b, c))


def fr(x):
    return x if isinstance(x, F) else F(x)


def frv(a):
    return (fr(a[0]), fr(a[1]), fr(a[2]))


def is_zero(a):
    return a[0] == 0 and a[1] == 0 and a[2] == 0


def lcm(a, b):
    return a * b // gcd(a, b)


def clear(n, d=None):
    """Scale (n, d) by a positive rational so that all entries are coprime integers."""
    vals = [fr(x) for x in n] + ([fr(d)] if d is not None else [])
    L = 1
    for v in vals:
        L = lcm(L, v.denominator)
    ints = [int(v * L) for v in vals]
    g = 0
    for v in ints:
        g = gcd(g, abs(v))
    if g > 1:
        ints = [v // g for v in ints]
    if d is None:
        return tuple(ints)
    return tuple(ints[:3]), ints[3]


# --------------------------------------------------------------------------- guard


class Guard:
    """Collects normalised squared magnitudes of the sign predicates evaluated by the
    model while deciding one scene.  A scene is admitted iff every magnitude is exactly 0
    or >= THRESH (relative margin 1e-3, squared)."""

    THRESH2 = F(1, 10 ** 6)

    def __init__(self):
        self.bad = False

    def obs(self, num2, den2):
        """value^2 = num2/den2 (den2 > 0)."""
        if num2 != 0 and num2 * 1000000 < den2:
            self.bad = True

    def ok(self):
        return not self.bad


class _NoGuard:
    def obs(self, num2, den2):
        pass

    def ok(self):
        return True


NOGUARD = _NoGuard()

_CTX = 10 ** 10


def hash_boundary_ok(c, sig=10, band=F(5, 1000)):
    """True iff the rational c is at least `band` rounding steps away from a decimal
    rounding boundary of round(c, sig)."""
    if isinstance(c, int):
        return True
    dd = c.denominator
    if sig >= 10 and dd <= 1024 and dd & (dd - 1) == 0:
        return True
    x = fr(c) * (10 ** sig)
    f = x - (x.numerator // x.denominator)
    return abs(f - F(1, 2)) >= band


def hash_boundary_ok_sqrt(num, den2, sig=10, band=5e-3):
    """Same for the irrational num/sqrt(den2) (unit-vector components, plane offsets)."""
    if num == 0:
        return True
    with decimal.localcontext() as ctx:
        ctx.prec = 60
        v = decimal.Decimal(fr(num).numerator) / decimal.Decimal(fr(num).denominator)
        d = decimal.Decimal(fr(den2).numerator) / decimal.Decimal(fr(den2).denominator)
        x = v / d.sqrt() * (decimal.Decimal(10) ** sig)
        f = x - x.to_integral_value(rounding=decimal.ROUND_FLOOR)
        return abs(float(f) - 0.5) >= band


# --------------------------------------------------------------------------- constructors

def Pt(p):
    return ('Point', tuple(p))


def Ln(p, d):
    return ('Line', tuple(p), tuple(d))


def Hl(p, d):
    return ('HalfLine', tuple(p), tuple(d))


def Sg(p, q):
    return ('Segment', tuple(p), tuple(q))


def Pl(p, n):
    return ('Plane', tuple(p), tuple(n))


def Pg(verts):
    return ('ConvexPolygon', tuple(tuple(v) for v in verts))


def Ph(verts):
    return ('ConvexPolyhedron', tuple(tuple(v) for v in verts))


LINELIKE = ('Line', 'HalfLine', 'Segment')
FLAT = ('Point', 'Line', 'HalfLine', 'Segment', 'Plane')
BODY = ('ConvexPolygon', 'ConvexPolyhedron')
ALL7 = ('Point', 'Line', 'Plane', 'Segment', 'HalfLine', 'ConvexPolygon', 'ConvexPolyhedron')


def param(o):
    """(p, d, lo, hi) of a line-like object: points p + t d, lo <= t <= hi."""
    k = o[0]
    if k == 'Line':
        return o[1], o[2], -inf, inf
    if k == 'HalfLine':
        return o[1], o[2], 0, inf
    if k == 'Segment':
        return o[1], sub(o[2], o[1]), 0, 1
    raise TypeError(k)


def from_param(p, d, lo, hi):
    """Denotation of {p + t d : lo <= t <= hi} (lo<=hi assumed, possibly infinite)."""
    if lo == -inf and hi == inf:
        return Ln(p, d)
    if lo == -inf:
        return Hl(add(p, scal(hi, d)), neg(d))
    if hi == inf:
        return Hl(add(p, scal(lo, d)), d)
    if lo == hi:
        return Pt(add(p, scal(lo, d)))
    return Sg(add(p, scal(lo, d)), add(p, scal(hi, d)))


# --------------------------------------------------------------------------- point-set rank

def rank_pts(pts):
    pts = list(pts)
    if not pts:
        return -1
    p0 = pts[0]
    vs = [sub(p, p0) for p in pts[1:]]
    vs = [v for v in vs if not is_zero(v)]
    if not vs:
        return 0
    v1 = vs[0]
    ws = [v for v in vs if not is_zero(cross(v1, v))]
    if not ws:
        return 1
    n = cross(v1, ws[0])
    if all(dot(n, v) == 0 for v in vs):
        return 2
    return 3


def plane_normal_of(pts):
    pts = list(pts)
    p0 = pts[0]
    vs = [sub(p, p0) for p in pts[1:]]
    v1 = next(v for v in vs if not is_zero(v))
    w = next(v for v in vs if not is_zero(cross(v1, v)))
    return cross(v1, w)


# --------------------------------------------------------------------------- hulls

@lru_cache(maxsize=4096)
def hull_facets(V):
    """V: tuple of points in 3-D general position (rank 3).  Returns a tuple of
    (n, d, idx) with integer primitive n, n.x <= d for all of V and idx the indices of the
    vertices on the facet (unordered)."""
    res = {}
    m = len(V)
    for i, j, k in combinations(range(m), 3):
        n = cross(sub(V[j], V[i]), sub(V[k], V[i]))
        if is_zero(n):
            continue
        d = dot(n, V[i])
        s = [dot(n, v) - d for v in V]
        if all(x <= 0 for x in s):
            pass
        elif all(x >= 0 for x in s):
            n = neg(n)
            d = -d
            s = [-x for x in s]
        else:
            continue
        on = tuple(idx for idx in range(m) if s[idx] == 0)
        if on not in res:
            res[on] = clear(n, d)
    return tuple((n, d, on) for on, (n, d) in res.items())


@lru_cache(maxsize=4096)
def poly_cycle(V):
    """Ordered cycle (counter-clockwise about the returned normal) of the coplanar convex
    position point tuple V.  Returns (normal, cycle)."""
    n = plane_normal_of(V)
    m = len(V)
    c = (sum(fr(v[0]) for v in V) / m, sum(fr(v[1]) for v in V) / m, sum(fr(v[2]) for v in V) / m)
    u = sub(V[0], c)

    def half(w):
        s = dot(cross(u, w), n)
        if s > 0 or (s == 0 and dot(u, w) > 0):
            return 0
        return 1

    def cmp(a, b):
        wa, wb = sub(a, c), sub(b, c)
        ha, hb = half(wa), half(wb)
        if ha != hb:
            return -1 if ha < hb else 1
        s = dot(cross(wa, wb), n)
        return -1 if s > 0 else (1 if s < 0 else 0)

    return n, tuple(sorted(V, key=cmp_to_key(cmp)))


def is_convex_position(V):
    """every point of V is an extreme point of conv(V) (rank 2 or 3)."""
    V = tuple(V)
    r = rank_pts(V)
    if r == 2:
        n, cyc = poly_cycle(V)
        m = len(cyc)
        if len(set(cyc)) != m:
            return False
        for i in range(m):
            a, b, c_ = cyc[i], cyc[(i + 1) % m], cyc[(i + 2) % m]
            if dot(cross(sub(b, a), sub(c_, b)), n) <= 0:
                return False
        return True
    if r == 3:
        onv = set()
        for n, d, on in hull_facets(V):
            # vertices of the facet polygon only
            pts = tuple(V[i] for i in on)
            if len(pts) > 3:
                if not is_convex_position(pts):
                    return False
            onv.update(on)
        return len(onv) == len(V) and len(set(V)) == len(V)
    return False


@lru_cache(maxsize=4096)
def hrep(o):
    """(eqs, ineqs) with integer (n, d):  n.x == d / n.x <= d.  Valid for every type."""
    k = o[0]
    if k == 'Point':
        p = o[1]
        return tuple(clear(e, p[i]) for i, e in enumerate(((1, 0, 0), (0, 1, 0), (0, 0, 1)))), ()
    if k in LINELIKE:
        p, d, lo, hi = param(o)
        e = min(((1, 0, 0), (0, 1, 0), (0, 0, 1)), key=lambda e: abs(dot(e, d)) if not is_zero(cross(d, e)) else inf)
        a = cross(d, e)
        b = cross(d, a)
        eqs = (clear(a, dot(a, p)), clear(b, dot(b, p)))
        ine = []
        if lo != -inf:
            q = add(p, scal(lo, d))
            ine.append(clear(neg(d), -dot(d, q)))
        if hi != inf:
            q = add(p, scal(hi, d))
            ine.append(clear(d, dot(d, q)))
        return eqs, tuple(ine)
    if k == 'Plane':
        return (clear(o[2], dot(o[2], o[1])),), ()
    if k == 'ConvexPolygon':
        n, cyc = poly_cycle(o[1])
        eqs = (clear(n, dot(n, cyc[0])),)
        ine = []
        m = len(cyc)
        for i in range(m):
            a, b = cyc[i], cyc[(i + 1) % m]
            out = cross(sub(b, a), n)  # outward in-plane normal of a CCW cycle
            ine.append(clear(out, dot(out, a)))
        return eqs, tuple(ine)
    if k == 'ConvexPolyhedron':
        return (), tuple((n, d) for n, d, on in hull_facets(o[1]))
    raise TypeError(k)


# --------------------------------------------------------------------------- vertex enumeration

def vertices(eqs, ineqs):
    """Vertex set of the *bounded* polytope {eqs, ineqs} (integer constraints)."""
    cons = [(n, d, True) for n, d in eqs] + [(n, d, False) for n, d in ineqs]
    out = set()
    m = len(cons)
    for i in range(m):
        ni, di, _ = cons[i]
        for j in range(i + 1, m):
            nj, dj, _ = cons[j]
            cij = cross(ni, nj)
            if cij[0] == 0 and cij[1] == 0 and cij[2] == 0:
                continue
            for k in range(j + 1, m):
                nk, dk, _ = cons[k]
                D = cij[0] * nk[0] + cij[1] * nk[1] + cij[2] * nk[2]
                if D == 0:
                    continue
                # Cramer:  x = (di (nj x nk) + dj (nk x ni) + dk (ni x nj)) / D
                cjk = cross(nj, nk)
                cki = cross(nk, ni)
                X = (di * cjk[0] + dj * cki[0] + dk * cij[0],
                     di * cjk[1] + dj * cki[1] + dk * cij[1],
                     di * cjk[2] + dj * cki[2] + dk * cij[2])
                if D < 0:
                    D2 = -D
                    X = (-X[0], -X[1], -X[2])
                else:
                    D2 = D
                ok = True
                for n, d, iseq in cons:
                    s = n[0] * X[0] + n[1] * X[1] + n[2] * X[2] - d * D2
                    if s > 0 or (iseq and s != 0):
                        ok = False
                        break
                if ok:
                    out.add((F(X[0], D2), F(X[1], D2), F(X[2], D2)))
    return out


def denote_vertices(vs):
    """Vertex set -> denotation of its convex hull."""
    vs = sorted(vs)
    r = rank_pts(vs)
    if r == -1:
        return None
    if r == 0:
        return Pt(vs[0])
    if r == 1:
        d = sub(vs[1], vs[0])
        ts = sorted(vs, key=lambda v: dot(sub(v, vs[0]), d))
        return Sg(ts[0], ts[-1])
    if r == 2:
        return Pg(vs)
    return Ph(vs)


# --------------------------------------------------------------------------- membership

def point_in(x, o, g=NOGUARD):
    """exact x in o; reports margins to guard g."""
    k = o[0]
    if k == 'Point':
        w = sub(x, o[1])
        g.obs(n2(w), max(1, n2(x), n2(o[1])))
        return is_zero(w)
    if k in LINELIKE:
        p, d, lo, hi = param(o)
        w = sub(x, p)
        c = cross(w, d)
        if not is_zero(w):
            g.obs(n2(c), n2(d) * n2(w))
            g.obs(n2(c), n2(d) * max(1, n2(x)))
        if not is_zero(c):
            return False
        t = F(dot(w, d), n2(d))
        if lo != -inf:
            g.obs((t - lo) ** 2 * n2(d), max(1, n2(d)))
            g.obs((t - lo) ** 2, 1)
            if t < lo:
                return False
        if hi != inf:
            g.obs((t - hi) ** 2 * n2(d), max(1, n2(d)))
            g.obs((t - hi) ** 2, 1)
            if t > hi:
                return False
        return True
    if k == 'Plane':
        w = sub(x, o[1])
        s = dot(w, o[2])
        g.obs(s * s, n2(o[2]) * max(1, n2(w)))
        return s == 0
    eqs, ine = hrep(o)
    for n, d in eqs:
        s = dot(n, x) - d
        g.obs(s * s, n2(n) * max(1, n2(x)))
        if s != 0:
            return False
    res = True
    for n, d in ine:
        s = dot(n, x) - d
        g.obs(s * s, n2(n) * max(1, n2(x)))
        if s > 0:
            res = False
    return res


def defining_points(o):
    k = o[0]
    if k == 'Point':
        return (o[1],)
    if k == 'Segment':
        return (o[1], o[2])
    if k in ('ConvexPolygon', 'ConvexPolyhedron'):
        return o[1]
    raise TypeError(k)


def contains(outer, inner, g=NOGUARD):
    """exact: every point of `inner` belongs to `outer`."""
    ki = inner[0]
    if ki in ('Point', 'Segment', 'ConvexPolygon', 'ConvexPolyhedron'):
        res = True
        for x in defining_points(inner):
            if not point_in(x, outer, g):
                res = False
        return res
    ko = outer[0]
    if ki == 'HalfLine':
        p, d = inner[1], inner[2]
        if not point_in(p, outer, g):
            return False
        if ko == 'Line':
            c = cross(d, outer[2])
            g.obs(n2(c), n2(d) * n2(outer[2]))
            return is_zero(c)
        if ko == 'HalfLine':
            c = cross(d, outer[2])
            g.obs(n2(c), n2(d) * n2(outer[2]))
            return is_zero(c) and dot(d, outer[2]) > 0
        if ko == 'Plane':
            s = dot(d, outer[2])
            g.obs(s * s, n2(d) * n2(outer[2]))
            return s == 0
        return False
    if ki == 'Line':
        p, d = inner[1], inner[2]
        if not point_in(p, outer, g):
            return False
        if ko == 'Line':
            c = cross(d, outer[2])
            g.obs(n2(c), n2(d) * n2(outer[2]))
            return is_zero(c)
        if ko == 'Plane':
            s = dot(d, outer[2])
            g.obs(s * s, n2(d) * n2(outer[2]))
            return s == 0
        return False
    if ki == 'Plane':
        if ko != 'Plane':
            return False
        c = cross(inner[2], outer[2])
        g.obs(n2(c), n2(inner[2]) * n2(outer[2]))
        return is_zero(c) and point_in(inner[1], outer, g)
    raise TypeError(ki)


def same_set(a, b):
    """exact: a and b denote the same point set (None allowed)."""
    if a is None or b is None:
        return a is None and b is None
    if a[0] != b[0]:
        return False
    k = a[0]
    if k == 'Point':
        return tuple(map(fr, a[1])) == tuple(map(fr, b[1]))
    if k == 'Segment':
        return {frv(a[1]), frv(a[2])} == {frv(b[1]), frv(b[2])}
    if k in BODY:
        return {frv(v) for v in a[1]} == {frv(v) for v in b[1]}
    return contains(a, b) and contains(b, a)


# --------------------------------------------------------------------------- flat x flat (closed forms)

def _allen(lo1, hi1, lo2, hi2):
    """coarse interval relation of [lo2,hi2] with respect to [lo1,hi1]."""
    if hi2 < lo1 or lo2 > hi1:
        return 'disjoint'
    if hi2 == lo1 or lo2 == hi1:
        if lo1 == hi1 or lo2 == hi2:
            pass
        return 'touch'
    if lo1 == lo2 and hi1 == hi2:
        return 'equal'
    if lo2 >= lo1 and hi2 <= hi1:
        return 'b-in-a' + ('-shared-end' if (lo2 == lo1 or hi2 == hi1) else '')
    if lo1 >= lo2 and hi1 <= hi2:
        return 'a-in-b' + ('-shared-end' if (lo2 == lo1 or hi2 == hi1) else '')
    return 'overlap'


def _end_margin(g, t, end, d2):
    if end in (inf, -inf):
        return
    g.obs((t - end) ** 2, 1)
    g.obs((t - end) ** 2 * d2, max(1, d2))


def inter_ll(A, B, g=NOGUARD):
    """line-like x line-like.  Returns (denotation, cell)."""
    pA, dA, loA, hiA = param(A)
    pB, dB, loB, hiB = param(B)
    w = sub(pB, pA)
    n = cross(dA, dB)
    g.obs(n2(n), n2(dA) * n2(dB))
    if is_zero(n):
        c = cross(w, dA)
        if not is_zero(w):
            g.obs(n2(c), n2(dA) * n2(w))
        g.obs(n2(c), n2(dA) * max(1, n2(pA), n2(pB)))
        if not is_zero(c):
            return None, 'parallel-disjoint'
        k = F(dot(dB, dA), n2(dA))
        t0 = F(dot(w, dA), n2(dA))
        ends = sorted([t0 + k * x if x not in (inf, -inf) else (x if k > 0 else -x) for x in (loB, hiB)])
        lo2, hi2 = ends
        for e1 in (loA, hiA):
            for e2 in (lo2, hi2):
                if e1 not in (inf, -inf) and e2 not in (inf, -inf):
                    _end_margin(g, e2, e1, n2(dA))
        rel = _allen(loA, hiA, lo2, hi2)
        lo, hi = max(loA, lo2), min(hiA, hi2)
        cell = 'collinear-%s-%s' % (rel, 'same' if k > 0 else 'opposite')
        if lo > hi:
            return None, cell
        return from_param(pA, dA, lo, hi), cell
    tp = dot(w, n)
    g.obs(tp * tp, n2(n) * max(1, n2(w)))
    if tp != 0:
        return None, 'skew'
    nn = n2(n)
    t = F(dot(cross(w, dB), n), nn)
    s = F(dot(cross(w, dA), n), nn)
    for (x, lo, hi, d) in ((t, loA, hiA, dA), (s, loB, hiB, dB)):
        _end_margin(g, x, lo, n2(d))
        _end_margin(g, x, hi, n2(d))
    inA = loA <= t <= hiA
    inB = loB <= s <= hiB
    atA = t in (loA, hiA)
    atB = s in (loB, hiB)
    if inA and inB:
        cell = 'cross-' + ('end-both' if (atA and atB) else ('end-one' if (atA or atB) else 'interior'))
        return Pt(add(pA, scal(t, dA))), cell
    return None, 'cross-outside-' + ('both' if (not inA and not inB) else 'one')


def inter_lpl(L, P, g=NOGUARD):
    """line-like x plane."""
    p, d, lo, hi = param(L)
    q, n = P[1], P[2]
    dn = dot(d, n)
    g.obs(dn * dn, n2(d) * n2(n))
    w = sub(q, p)
    wn = dot(w, n)
    if dn == 0:
        g.obs(wn * wn, n2(n) * max(1, n2(w)))
        if wn == 0:
            return L, 'in-plane'
        return None, 'parallel-off-plane'
    t = F(wn, dn)
    _end_margin(g, t, lo, n2(d))
    _end_margin(g, t, hi, n2(d))
    if lo <= t <= hi:
        return Pt(add(p, scal(t, d))), ('cross-at-end' if t in (lo, hi) else 'cross-interior')
    return None, 'carrier-crosses-outside'


def inter_plpl(A, B, g=NOGUARD):
    n1, n2_ = A[2], B[2]
    u = cross(n1, n2_)
    g.obs(n2(u), n2(n1) * n2(n2_))
    if is_zero(u):
        w = sub(B[1], A[1])
        s = dot(w, n1)
        g.obs(s * s, n2(n1) * max(1, n2(w)))
        if s == 0:
            return A, 'coincident-' + ('same' if dot(n1, n2_) > 0 else 'opposite')
        return None, 'parallel-distinct'
    d1, d2 = dot(n1, A[1]), dot(n2_, B[1])
    uu = n2(u)
    a = cross(n2_, u)
    b = cross(u, n1)
    p = tuple(F(d1 * a[i] + d2 * b[i], uu) for i in range(3))
    return Ln(p, u), 'crossing'


def inter_flat(a, b, g=NOGUARD):
    """exact intersection of two flat objects -> (denotation, cell)."""
    ka, kb = a[0], b[0]
    if ka == 'Point':
        return (a if point_in(a[1], b, g) else None), 'point'
    if kb == 'Point':
        return (b if point_in(b[1], a, g) else None), 'point'
    if ka in LINELIKE and kb in LINELIKE:
        return inter_ll(a, b, g)
    if ka in LINELIKE and kb == 'Plane':
        return inter_lpl(a, b, g)
    if ka == 'Plane' and kb in LINELIKE:
        return inter_lpl(b, a, g)
    if ka == 'Plane' and kb == 'Plane':
        return inter_plpl(a, b, g)
    raise TypeError((ka, kb))


# --------------------------------------------------------------------------- anything x body

def clip_linelike(L, K, g=NOGUARD):
    """line-like x body by parameter clipping."""
    p, d, lo, hi = param(L)
    eqs, ine = hrep(K)
    for n, c in eqs:
        dn = dot(n, d)
        s = c - dot(n, p)
        g.obs(dn * dn, n2(n) * n2(d))
        if dn == 0:
            g.obs(s * s, n2(n) * max(1, n2(p)))
            if s != 0:
                return None, 'parallel-off-plane'
        else:
            t = F(s, dn)
            _end_margin(g, t, lo, n2(d))
            _end_margin(g, t, hi, n2(d))
            if t < lo or t > hi:
                return None, 'carrier-crosses-outside'
            lo = hi = t
    entered = False
    for n, c in ine:
        dn = dot(n, d)
        s = c - dot(n, p)
        g.obs(dn * dn, n2(n) * n2(d))
        if dn == 0:
            g.obs(s * s, n2(n) * max(1, n2(p)))
            if s < 0:
                return None, 'misses'
        else:
            t = F(s, dn)
            _end_margin(g, t, lo, n2(d))
            _end_margin(g, t, hi, n2(d))
            if dn > 0:
                if t < hi:
                    hi = t
            else:
                if t > lo:
                    lo = t
            if lo > hi:
                return None, 'misses'
    r = from_param(p, d, lo, hi)
    return r, ('touch' if r[0] == 'Point' else 'through')


def inter(a, b, g=NOGUARD):
    """exact intersection of any two objects (None absorbs).  Returns (denotation, cell)."""
    if a is None or b is None:
        return None, 'none-operand'
    ka, kb = a[0], b[0]
    if ka in FLAT and kb in FLAT:
        return inter_flat(a, b, g)
    if ka == 'Point':
        return (a if point_in(a[1], b, g) else None), 'point-body'
    if kb == 'Point':
        return (b if point_in(b[1], a, g) else None), 'point-body'
    if ka in LINELIKE and kb in BODY:
        return clip_linelike(a, b, g)
    if kb in LINELIKE and ka in BODY:
        return clip_linelike(b, a, g)
    ea, ia = hrep(a)
    eb, ib = hrep(b)
    vs = vertices(ea + eb, ia + ib)
    r = denote_vertices(vs)
    cell = 'dim%d-v%d' % (rank_pts(vs), len(vs))
    return r, cell


def inter_engine(a, b):
    """the generic convex-set engine on any pair whose intersection is bounded (used to
    cross-validate the closed forms)."""
    ea, ia = hrep(a)
    eb, ib = hrep(b)
    return denote_vertices(vertices(ea + eb, ia + ib))


def body_margin(a, b, g):
    """Admission guard for plane/body x body scenes: every vertex of either operand
    against every constraint of the other, and every edge x constraint-plane point of one
    operand against the constraints of the other."""
    for X, Y in ((a, b), (b, a)):
        if X[0] not in BODY:
            continue
        eqs, ine = hrep(Y)
        cons = list(eqs) + list(ine)
        for v in X[1]:
            for n, d in cons:
                s = dot(n, v) - d
                g.obs(s * s, n2(n) * max(1, n2(v)))
        for p, q in edges_of(X):
            dd = sub(q, p)
            for n, d in cons:
                dn = dot(n, dd)
                g.obs(dn * dn, n2(n) * n2(dd))
                if dn != 0:
                    t = F(d - dot(n, p), dn)
                    g.obs(t * t, 1)
                    g.obs((t - 1) ** 2, 1)
                    if 0 <= t <= 1:
                        x = add(p, scal(t, dd))
                        for n_, d_ in cons:
                            s = dot(n_, x) - d_
                            g.obs(s * s, n2(n_) * max(1, n2(x)))


# --------------------------------------------------------------------------- combinatorics & measures

def edges_of(o):
    """set of frozenset edges {p,q} of a polygon / polyhedron."""
    if o[0] == 'ConvexPolygon':
        n, cyc = poly_cycle(o[1])
        m = len(cyc)
        return [(cyc[i], cyc[(i + 1) % m]) for i in range(m)]
    V = o[1]
    es = {}
    for n, d, on in hull_facets(V):
        pts = tuple(V[i] for i in on)
        nn, cyc = poly_cycle(pts)
        m = len(cyc)
        for i in range(m):
            a, b = cyc[i], cyc[(i + 1) % m]
            es[frozenset((a, b))] = (a, b)
    return list(es.values())


def facets_of(o):
    """list of (outward integer normal, ordered CCW-about-outward cycle)."""
    V = o[1]
    out = []
    for n, d, on in hull_facets(V):
        pts = tuple(V[i] for i in on)
        nn, cyc = poly_cycle(pts)
        if dot(nn, n) < 0:
            cyc = tuple(reversed(cyc))
        out.append((n, cyc))
    return out


def area_vec2(cyc):
    """twice the area vector of an ordered cycle."""
    s = (0, 0, 0)
    p0 = cyc[0]
    for i in range(1, len(cyc) - 1):
        s = add(s, cross(sub(cyc[i], p0), sub(cyc[i + 1], p0)))
    return s


def polygon_area2(o):
    """exact squared area of a polygon."""
    n, cyc = poly_cycle(o[1])
    return F(n2(area_vec2(cyc)), 4)


def volume6(o):
    """6 x exact volume of a polyhedron."""
    V = o[1]
    c = V[0]
    tot = 0
    for n, cyc in facets_of(o):
        p0 = cyc[0]
        for i in range(1, len(cyc) - 1):
            tot += det3(sub(p0, c), sub(cyc[i], c), sub(cyc[i + 1], c))
    return tot


def f_length(o):
    """float edge-length sum."""
    if o[0] == 'Segment':
        return sqrt(n2(sub(o[2], o[1])))
    return sum(sqrt(n2(sub(q, p))) for p, q in edges_of(o))


def f_area(o):
    if o[0] == 'ConvexPolygon':
        return sqrt(polygon_area2(o))
    return sum(sqrt(F(n2(area_vec2(cyc)), 4)) for n, cyc in facets_of(o))


def f_volume(o):
    return float(F(abs(volume6(o)), 6))


def interior_point(o):
    V = o[1]
    m = len(V)
    return (sum(fr(v[0]) for v in V) / m, sum(fr(v[1]) for v in V) / m, sum(fr(v[2]) for v in V) / m)


# --------------------------------------------------------------------------- distances

def dist2_point_line(x, L):
    p, d = L[1], L[2]
    c = cross(sub(x, p), d)
    return F(n2(c), n2(d))


def dist2_point_plane(x, P):
    s = dot(sub(x, P[1]), P[2])
    return F(s * s, n2(P[2]))


def dist2_line_line(A, B):
    n = cross(A[2], B[2])
    if is_zero(n):
        return dist2_point_line(B[1], A)
    s = dot(sub(B[1], A[1]), n)
    return F(s * s, n2(n))


def dist2_line_plane(L, P):
    if dot(L[2], P[2]) != 0:
        return F(0)
    return dist2_point_plane(L[1], P)


def dist2(a, b):
    ka, kb = a[0], b[0]
    if ka == 'Point' and kb == 'Point':
        return fr(n2(sub(a[1], b[1])))
    if ka == 'Point' and kb == 'Line':
        return dist2_point_line(a[1], b)
    if ka == 'Line' and kb == 'Point':
        return dist2_point_line(b[1], a)
    if ka == 'Line' and kb == 'Line':
        return dist2_line_line(a, b)
    if ka == 'Point' and kb == 'Plane':
        return dist2_point_plane(a[1], b)
    if ka == 'Plane' and kb == 'Point':
        return dist2_point_plane(b[1], a)
    if ka == 'Line' and kb == 'Plane':
        return dist2_line_plane(a, b)
    if ka == 'Plane' and kb == 'Line':
        return dist2_line_plane(b, a)
    raise TypeError((ka, kb))


# --------------------------------------------------------------------------- affine maps

def mat_apply(M, v):
    return (dot(M[0], v), dot(M[1], v), dot(M[2], v))


def cofactor(M):
    a, b, c = M
    return (cross(b, c), cross(c, a), cross(a, b))


def xform(o, M, s=1, t=ZERO):
    """image of o under x -> s*M x + t (M invertible, s != 0)."""
    if o is None:
        return None
    s = fr(s)

    def P(x):
        return add(scal(s, mat_apply(M, x)), t)

    def D(d):
        return scal(s, mat_apply(M, d))

    def N(n):
        return mat_apply(cofactor(M), n)

    k = o[0]
    if k == 'Point':
        return Pt(P(o[1]))
    if k == 'Line':
        return Ln(P(o[1]), D(o[2]))
    if k == 'HalfLine':
        return Hl(P(o[1]), D(o[2]))
    if k == 'Segment':
        return Sg(P(o[1]), P(o[2]))
    if k == 'Plane':
        return Pl(P(o[1]), N(o[2]))
    if k == 'ConvexPolygon':
        return Pg(P(v) for v in o[1])
    if k == 'ConvexPolyhedron':
        return Ph(P(v) for v in o[1])
    raise TypeError(k)


def all_points(o):
    """all rational points that define o (for representability / hash-boundary guards)."""
    k = o[0]
    if k == 'Point':
        return [o[1]]
    if k in ('Line', 'HalfLine', 'Plane'):
        return [o[1]]
    if k == 'Segment':
        return [o[1], o[2]]
    return list(o[1])


def coords_hash_ok(o):
    if o is None:
        return True
    for p in all_points(o):
        for c in p:
            if not hash_boundary_ok(c):
                return False
    return True
