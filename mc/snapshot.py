"""Canonical bit-exact snapshots of object graphs (with aliasing structure)."""
from fractions import Fraction
from decimal import Decimal


def _leaf(x):
    if isinstance(x, float):
        return ('f', x.hex())
    if isinstance(x, bool):
        return ('b', x)
    if isinstance(x, int):
        return ('i', x)
    if x is None or isinstance(x, (Fraction, Decimal, str)):
        return (type(x).__name__, str(x))
    return None


def _plain(x, depth=0):
    l = _leaf(x)
    if l is not None:
        return l
    if depth > 12:
        return ('deep',)
    if isinstance(x, (list, tuple)):
        return (type(x).__name__, tuple(_plain(e, depth + 1) for e in x))
    if isinstance(x, (set, frozenset)):
        return (type(x).__name__, tuple(sorted((_plain(e, depth + 1) for e in x), key=repr)))
    if isinstance(x, dict):
        return ('dict', tuple(sorted(((_plain(k, depth + 1), _plain(v, depth + 1)) for k, v in x.items()), key=repr)))
    if hasattr(x, '__dict__'):
        return (type(x).__name__, tuple((k, _plain(v, depth + 1)) for k, v in sorted(vars(x).items())))
    return ('opaque', type(x).__name__)


def snapshot(root, aliasing=True):
    """Recursive structural snapshot.  Floats bit-exact (hex), container kinds, numeric
    types, and (if aliasing) the identity-sharing pattern of mutable objects."""
    ids = {}

    def walk(x):
        l = _leaf(x)
        if l is not None:
            return l
        if aliasing:
            if id(x) in ids:
                return ('ref', ids[id(x)])
            ids[id(x)] = len(ids)
        if isinstance(x, (list, tuple)):
            return (type(x).__name__, tuple(walk(e) for e in x))
        if isinstance(x, (set, frozenset)):
            items = sorted(x, key=lambda e: repr(_plain(e)))
            return (type(x).__name__, tuple(walk(e) for e in items))
        if isinstance(x, dict):
            items = sorted(x.items(), key=lambda kv: repr(_plain(kv[0])))
            return ('dict', tuple((walk(k), walk(v)) for k, v in items))
        if hasattr(x, '__dict__'):
            return (type(x).__name__, tuple((k, walk(v)) for k, v in sorted(vars(x).items())))
        return ('opaque', type(x).__name__)

    return walk(root)


def values(root):
    """snapshot without aliasing structure (pure value comparison)."""
    return _plain(root)


# attributes that make up the observable state of each library class (the attribute set of
# the pinned tree); private memo / cache attributes added by a refactoring are not
# "observable attributes" and are ignored, a stale cache shows up in the answers instead
OBSERVABLE = {
    'Point': ('x', 'y', 'z'),
    'Vector': ('_v',),
    'Line': ('sv', 'dv'),
    'Plane': ('p', 'n'),
    'Segment': ('start_point', 'end_point', 'line'),
    'HalfLine': ('point', 'vector', 'line'),
    'ConvexPolygon': ('points', 'plane', 'center_point'),
    'ConvexPolyhedron': ('convex_polygons', 'point_set', 'segment_set', 'pyramid_set', 'center_point'),
    'Pyramid': ('convex_polygon', 'point'),
}


def observable(root):
    """value snapshot restricted to the observable attributes of library objects (floats
    bit-exact, container kinds kept, sets sorted)."""
    def walk(x, depth=0):
        l = _leaf(x)
        if l is not None:
            return l
        if depth > 14:
            return ('deep',)
        if isinstance(x, (list, tuple)):
            return (type(x).__name__, tuple(walk(e, depth + 1) for e in x))
        if isinstance(x, (set, frozenset)):
            return (type(x).__name__, tuple(sorted((walk(e, depth + 1) for e in x), key=repr)))
        if isinstance(x, dict):
            return ('dict', tuple(sorted(((walk(k, depth + 1), walk(v, depth + 1)) for k, v in x.items()), key=repr)))
        n = type(x).__name__
        if n in OBSERVABLE:
            return (n, tuple((a, walk(getattr(x, a, '<missing>'), depth + 1)) for a in OBSERVABLE[n]))
        if hasattr(x, '__dict__'):
            return (n, tuple((k, walk(v, depth + 1)) for k, v in sorted(vars(x).items()) if not k.startswith('_')))
        return ('opaque', n)
    return walk(root)
