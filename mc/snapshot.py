"""Canonical bit-exact snapshots of object graphs (with aliasing structure)."""
from fractions import Fraction
from decimal import Decimal


def _leaf(x):
    if isinstance(x, float):
        return ('f', x.hex())
    if isinstance(x, bool):
        return ('b', x)
    if isinstance(x, int):
        return ('i', x)
    if x is None or isinstance(x, (Fraction, Decimal, str)):
        return (type(x).__name__, str(x))
    return None


def _plain(x, depth=0):
    l = _leaf(x)
    if l is not None:
        return l
    if depth > 12:
        return ('deep',)
    if isinstance(x, (list, tuple)):
        return (type(x).__name__, tuple(_plain(e, depth + 1) for e in x))
    if isinstance(x, (set, frozenset)):
        return (type(x).__name__, tuple(sorted((_plain(e, depth + 1) for e in x), key=repr)))
    if isinstance(x, dict):
        return ('dict', tuple(sorted(((_plain(k, depth + 1), _plain(v, depth + 1)) for k, v in x.items()), key=repr)))
    if hasattr(x, '__dict__'):
        return (type(x).__name__, tuple((k, _plain(v, depth + 1)) for k, v in sorted(vars(x).items())))
    return ('opaque', type(x).__name__)


def snapshot(root, aliasing=True):
    """Recursive structural snapshot.  Floats bit-exact (hex), container kinds, numeric
    types, and (if aliasing) the identity-sharing pattern of mutable objects."""
    ids = {}

    def walk(x):
        l = _leaf(x)
        if l is not None:
            return l
        if aliasing:
            if id(x) in ids:
                return ('ref', ids[id(x)])
            ids[id(x)] = len(ids)
        if isinstance(x, (list, tuple)):
            return (type(x).__name__, tuple(walk(e) for e in x))
        if isinstance(x, (set, frozenset)):
            items = sorted(x, key=lambda e: repr(_plain(e)))
            return (type(x).__name__, tuple(walk(e) for e in items))
        if isinstance(x, dict):
            items = sorted(x.items(), key=lambda kv: repr(_plain(kv[0])))
            return ('dict', tuple((walk(k), walk(v)) for k, v in items))
        if hasattr(x, '__dict__'):
            return (type(x).__name__, tuple((k, walk(v)) for k, v in sorted(vars(x).items())))
        return ('opaque', type(x).__name__)

    return walk(root)


def values(root):
    """snapshot without aliasing structure (pure value comparison)."""
    return _plain(root)
