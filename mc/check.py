"""CLI:  python -m mc.check <ID> [--tier quick|thorough] [--replay FILE]

exit 0  property held on everything explored (KNOWN-FINDING lines possible)
exit 1  at least one unlisted violation (one `VIOLATION property=<id> replay=<path>` line each)
exit 2  harness error (never dressed up as a violation)
"""
import argparse
import importlib
import json
import os
import sys
import time
import traceback


def main(argv=None):
    ap = argparse.ArgumentParser()
    ap.add_argument('prop')
    ap.add_argument('--tier', default=os.environ.get('VERIF_TIER') or 'quick', choices=['quick', 'thorough'])
    ap.add_argument('--replay')
    ap.add_argument('--hashseed', default='0')
    args = ap.parse_args(argv)
    if os.environ.get('PYTHONHASHSEED') != args.hashseed:
        env = dict(os.environ)
        env['PYTHONHASHSEED'] = args.hashseed
        os.execve(sys.executable, [sys.executable, '-m', 'mc.check'] + (argv or sys.argv[1:]), env)
    try:
        seed = int(os.environ.get('VERIF_SEED', '0') or 0)
    except ValueError:
        seed = 0
    t0 = time.time()
    try:
        from . import lib, core
        lib.assert_binding()
        lib.assert_default_tolerance()
        mod = importlib.import_module('mc.props.' + args.prop)
        if args.replay:
            with open(args.replay) as f:
                rp = json.load(f)
            lib.MODE = 'int' if '#int' in str(rp.get('family') or '') else 'float'
            fam_ = str(rp.get('family') or '')
            lib.FORM = next((f for f in 'BCD' if '#form' + f in fam_), 'A')
            try:
                viols = mod.replay(rp['family'], rp['scene'])
            except lib.ConstructionFailed as cf:
                viols = [core.construction_viol(args.prop, rp['family'] or '?', rp['scene'], cf)]
            for v in viols:
                print('VIOLATION property=%s replay=%s' % (args.prop, args.replay))
                print('  signature: %s  %s' % (v.sig, v.msg))
                print('  expected: %s' % (v.expected,))
                print('  observed: %s' % (v.observed,))
            if not viols:
                print('replay: no violation for %s on the current tree' % args.replay)
            return 1 if viols else 0
        res = mod.run(args.tier, seed)
        rc_extra = 0
        # second, equally exhaustive, hash-seed environment for the set-order dependent families (thorough tier)
        if args.tier == 'thorough' and not os.environ.get('VERIF_EVIDENCE_OUT'):
            import subprocess
            import tempfile
            for hs in getattr(mod, 'EXTRA_HASHSEEDS', ()):
                tmp = tempfile.NamedTemporaryFile(prefix='verif_child_', suffix='.json', delete=False)
                tmp.close()
                env = dict(os.environ)
                env['PYTHONHASHSEED'] = str(hs)
                env['VERIF_EVIDENCE_OUT'] = tmp.name
                p = subprocess.run([sys.executable, '-m', 'mc.check', args.prop, '--tier', getattr(mod, 'EXTRA_HASHSEED_TIER', 'quick'),
                                    '--hashseed', str(hs)], env=env, capture_output=True, text=True)
                for line in p.stdout.splitlines():
                    if line.startswith('VIOLATION') or line.startswith('KNOWN-FINDING') or line.startswith('  signature'):
                        print(line)
                if p.returncode == 2:
                    sys.stderr.write(p.stderr)
                    raise RuntimeError('child run under PYTHONHASHSEED=%s failed' % hs)
                rc_extra = max(rc_extra, p.returncode)
                try:
                    with open(tmp.name) as f:
                        child = json.load(f)
                    res.extra['hashseed_%s' % hs] = {'tier': child['tier'], 'evaluations': child['coverage']['evaluations'],
                                                     'violations': child.get('violations'), 'wall_s': child['wall_s']}
                finally:
                    os.unlink(tmp.name)
        rc = core.finish(res, args.tier, seed, mod.LEVEL, t0, getattr(mod, 'TECHNIQUE', ''))
        return max(rc, rc_extra)
    except SystemExit:
        raise
    except BaseException:
        sys.stderr.write('HARNESS ERROR in check %s (not a verdict about the library):\n' % args.prop)
        traceback.print_exc()
        return 2


if __name__ == '__main__':
    sys.exit(main())
