"""C10 — distance is the exact Euclidean distance, symmetric and total.

E1: all documented pairs over lattice points / lines / planes x poses, both argument orders,
function and method forms, against the exact rational squared distance."""
import math
from fractions import Fraction as F

from Geometry3D import distance, intersection, Point

from .. import core, lib, exact as X, alphabet as A
from ..core import Viol
from .C01 import Mixed, plane_set

LEVEL = 'exploration'
TECHNIQUE = 'bounded-exhaustive enumeration of all lattice point/line/plane pairs x poses on the real code vs exact rational squared distance'


def eval_pair(fam, a, b):
    g = X.Guard()
    e, rel = X.inter_flat(a, b, g)
    if not g.ok():
        return 'skip:margin', []
    d2 = X.dist2(a, b)
    if (d2 == 0) != (e is not None):
        raise core.HarnessError('model inconsistency: dist2=%s inter=%s for %r %r' % (d2, e, a, b))
    exp = math.sqrt(d2)
    cell = '%s,%s|%s|%s' % (a[0], b[0], rel, 'zero' if d2 == 0 else 'positive')
    viols = []
    sc = None

    def bad(form, sym, got, msg=''):
        nonlocal sc
        if sc is None:
            sc = core.enc((a, b))
        viols.append(Viol('C10|%s|%s,%s|%s|%s' % (form, a[0], b[0], rel, sym), sc, exp, lib.describe(got),
                          'distance(%s,%s) [%s] expected %r got %r %s' % (a[0], b[0], form, exp, lib.describe(got), msg)))

    la, lb = lib.to_lib(a), lib.to_lib(b)
    if a[0] == 'Point':
        la = lib.use_point_elsewhere(la)
    forms = [('fn', lambda: distance(la, lb)), ('fn-swapped', lambda: distance(lb, la))]
    if a[0] != 'Point':
        forms.append(('method', lambda: la.distance(lb)))
    elif b[0] == 'Point':
        forms.append(('Point.distance', lambda: la.distance(lb)))
    vals = []
    for form, thunk in forms:
        r = lib.call(thunk)
        if isinstance(r, lib.Raised):
            bad(form, 'raises:' + r.cls, r)
            continue
        if isinstance(r, bool) or not isinstance(r, (int, float)) or not math.isfinite(r):
            bad(form, 'not-a-number', r)
            continue
        if r < 0:
            bad(form, 'negative', r)
        elif not (abs(r - exp) <= 1e-9 * max(1.0, exp)):
            bad(form, 'wrong-value', r)
        vals.append(r)
    li = lib.call(intersection, la, lb)
    if isinstance(li, lib.Raised):
        pass  # C01's business
    elif (li is not None) != (d2 == 0):
        bad('zero-iff-intersect', 'intersection-%s-but-distance-%s' % ('None' if li is None else 'nonempty', 'zero' if d2 == 0 else 'positive'), li)
    return cell, viols


class Pairs(Mixed):
    def eval(self, scene):
        return eval_pair(self.name, scene[0], scene[1])

    def nontrivial(self, cell):
        return not (cell.endswith('skew|positive'))


class Moved(Pairs):
    """distance, then move one operand in place, then distance again (against the exact translated scene)."""

    def eval(self, scene):
        return eval_moved(self.name, scene[0], scene[1])


MOVES = ((0, 0, 3), (1, 2, -1), (F(-1, 2), F(1, 4), 0))


def eval_moved(fam, a, b):
    from Geometry3D import Vector
    g = X.Guard()
    e, rel = X.inter_flat(a, b, g)
    if not g.ok():
        return 'skip:margin', []
    la, lb = lib.to_lib(a), lib.to_lib(b)
    viols = []
    lib.call(distance, la, lb)
    lib.call(intersection, la, lb)
    ta, tb = a, b
    for i, v in enumerate(MOVES):
        which = i % 2
        obj = (la, lb)[which]
        r = lib.call(obj.move, lib.V(v))
        if isinstance(r, lib.Raised):
            viols.append(Viol('C10|moved|%s,%s|move-raises:%s' % (a[0], b[0], r.cls), core.enc((a, b)), 'moved', repr(r), ''))
            break
        if which == 0:
            ta = X.xform(ta, ((1, 0, 0), (0, 1, 0), (0, 0, 1)), 1, v)
        else:
            tb = X.xform(tb, ((1, 0, 0), (0, 1, 0), (0, 0, 1)), 1, v)
        exp = math.sqrt(X.dist2(ta, tb))
        for form, th in (('fn', lambda: distance(la, lb)), ('fn-swapped', lambda: distance(lb, la))):
            d = lib.call(th)
            if isinstance(d, lib.Raised) or isinstance(d, bool) or not isinstance(d, (int, float)) or not abs(d - exp) <= 1e-9 * max(1.0, exp):
                viols.append(Viol('C10|moved|%s|%s,%s|wrong-value-after-in-place-move' % (form, a[0], b[0]), core.enc((a, b)), exp, lib.describe(d),
                                  'distance after moving operand %d in place by %r (step %d)' % (which, v, i)))
                return '%s,%s|moved' % (a[0], b[0]), viols
    return '%s,%s|moved' % (a[0], b[0]), viols


from fractions import Fraction as F


class ParallelLinePlane(Pairs):
    """every primitive lattice normal n with |x| <= R x every primitive direction d with d.n = 0, |x| <= R:
    a line exactly parallel to (or inside) an oblique plane, a cell that small alphabets under-populate."""

    def __init__(self, R, chunk=6):
        self.name = 'LnPl-parallel/R%d' % R
        self.both = True
        self.normals = A.directions(R, signed=False)
        self.R = R
        self._shards = [(i, min(i + chunk, len(self.normals))) for i in range(0, len(self.normals), chunk)]
        self.total = 0

    def scenes(self, shard):
        dirs = A.directions(self.R, signed=False)
        q = (1, 0, 2)
        for n in self.normals[shard[0]:shard[1]]:
            P = X.Pl(q, n)
            for d in dirs:
                if X.dot(d, n) != 0:
                    continue
                for off in ((1, 2, -1), (0, 0, 0)):
                    L = X.Ln(X.add(q, off), d)
                    yield (L, P)
                    yield (P, L)


def families(tier):
    if tier == 'quick':
        lpts, ppts, normals = A.B0, A.B1, A.D1
    else:
        lpts, ppts, normals = A.B1, A.B2, A.D2
    lines = [X.Ln(p, X.sub(q, p)) for p in lpts for q in lpts if p != q]
    planes = plane_set(A.B0, normals)
    points = [X.Pt(p) for p in ppts]
    fams = []
    for pose in A.poses(tier):
        fams.append(Pairs('PtPt', pose, points, points, both_orders=False))
        fams.append(Pairs('PtLn', pose, points, lines, chunk=2))
        fams.append(Pairs('LnLn', pose, lines, lines, both_orders=False, chunk=8))
        fams.append(Pairs('PtPl', pose, points, planes, chunk=2))
        fams.append(Pairs('LnPl', pose, planes, lines, chunk=4))
    fams = A.with_int_mode(fams, tier)
    # all lines of one lattice plane posed into an upright plane whose horizontal slope (15/11; thorough also 9/7) leaves
    # rounding noise in an elimination: crossing pairs must have distance 0 AND a non-None intersection
    flat_pts = [p for p in (A.B0 if tier == 'quick' else A.B1) if p[2] == 0]
    flat_lines = [X.Ln(p, X.sub(q, p)) for p in flat_pts for q in flat_pts if p != q]
    for pose in ((A.P5,) if tier == 'quick' else (A.P5, A.P4)):
        fams.append(Pairs('LnLn-upright', pose, flat_lines, flat_lines, both_orders=False, chunk=4))
    fams.append(ParallelLinePlane(6 if tier == 'quick' else 8))
    step = 9 if tier == 'quick' else 2
    fams.append(Moved('moved', A.P1, planes[::step], lines[::step] + points[::3], chunk=2))
    # operands with int coordinates moved in place by integral and by fractional vectors
    fams.append(Moved('moved#int', A.PZ, planes[::step], lines[::step] + points[::3], chunk=2))
    fams.append(Moved('moved-ll#int', A.P0, lines[::step * 2], lines[::step] + points[::3], both_orders=False, chunk=2))
    fams.append(Moved('moved-ll', A.P0, lines[::step * 2], lines[::step] + points[::3], both_orders=False, chunk=2))
    return fams


def run(tier, seed):
    fams = families(tier)
    res = core.run_families('C10', fams, seed)
    res.rule = ('every pair of the documented type pairs over lattice points, lines through all ordered lattice point pairs, all distinct '
                'lattice planes, under every pose, both argument orders and all call forms; non-trivial = not skew-generic')
    res.alphabets = {f.name: (f.total or 'see cells') for f in fams}
    return res


def replay(family, scene):
    a, b = core.dec(scene)
    if family.startswith('moved'):
        return eval_moved(family, a, b)[1]
    return eval_pair(family, a, b)[1]
