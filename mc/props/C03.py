"""C03 — intersection of two convex polygons / polyhedra is the exact convex set.

E1: ordered pairs of catalogue bodies under (a) lattice / half-lattice translations,
(b) feature alignments, (c) nested scalings, (d) exact affine re-orientations of the second
body, (e) coplanar and crossing polygon pairs; whole scenes under every pose of the tier."""
from fractions import Fraction as F
from itertools import product

from .. import core, lib, exact as X, alphabet as A
from ..core import Family
from ..icheck import eval_inter
from .C02 import base_features

LEVEL = 'exploration'
TECHNIQUE = 'bounded-exhaustive enumeration of catalogue body pairs x relative placements x poses on the real code vs exact vertex enumeration'

ID = ((1, 0, 0), (0, 1, 0), (0, 0, 1))
ROT90Z = ((0, -1, 0), (1, 0, 0), (0, 0, 1))
ROT345Z = ((3, -4, 0), (4, 3, 0), (0, 0, 4))       # x 1/4 : 3-4-5 rotation about z scaled by 5/4 (z kept)
RX90 = ((1, 0, 0), (0, 0, -1), (0, 1, 0))


def window(lo, hi, step, dims=3):
    n = int((hi - lo) / step)
    vals = [lo + i * F(step) for i in range(n + 1)]
    vals.sort(key=lambda v: (abs(v), v))
    if dims == 3:
        ts = list(product(vals, vals, vals))
    else:
        ts = [(a, b, 0) for a in vals for b in vals]
    ts.sort(key=lambda t: (max(abs(c) for c in t), sum(abs(c) for c in t), t))
    return ts


def align_features(o, limit):
    if limit is None:
        return base_features(o)
    vs = [X.frv(v) for v in o[1]][:4]
    es = [A.mid(a, b) for a, b in X.edges_of(o)][:3]
    fs = []
    if o[0] == 'ConvexPolyhedron':
        for n, cyc in X.facets_of(o)[:2]:
            a, b, c = cyc[0], cyc[1], cyc[2]
            fs.append(tuple(F(2 * a[i] + b[i] + c[i], 4) for i in range(3)))
    return vs + es + fs + [X.interior_point(o)]


class BodyPairs(Family):
    """scenes (K1, g(K2)+tau) for tau in a list computed per shard."""
    scene_timeout = 300.0

    def __init__(self, kind, pose, pairs, spec):
        self.name = '%s/%s' % (kind, pose.name)
        self.kind, self.pose, self.spec = kind, pose, spec
        self.pairs = pairs
        self._shards = []
        self.total = 0
        for (b1, b2) in pairs:
            n = len(self.placements(b1, b2))
            self.total += n
            step = 25 if (b1 in A.POLYHEDRA and b2 in A.POLYHEDRA) else 120
            for i in range(0, n, step):
                self._shards.append((b1, b2, i, min(i + step, n)))

    def shards(self):
        return self._shards

    def placements(self, b1, b2):
        """list of exact bodies: images of K2."""
        K1, K2 = A.body(b1), A.body(b2)
        kind, spec = self.kind, self.spec
        out = []
        if kind == 'translate':
            for t in spec['window']:
                out.append(X.xform(K2, ID, 1, t))
        elif kind == 'align':
            seen = set()
            for f1 in align_features(K1, spec['limit']):
                for f2 in align_features(K2, spec['limit']):
                    t = X.sub(f1, f2)
                    if t not in seen:
                        seen.add(t)
                        out.append(X.xform(K2, ID, 1, t))
        elif kind == 'nested':
            c = X.interior_point(K1)
            for s in spec['scales']:
                for off in spec['offsets']:
                    # s*K2' centred so that K1's interior point is fixed, then shifted
                    img = X.xform(K1, ID, s, X.add(X.scal(1 - F(s), c), off))
                    out.append(img)
        elif kind == 'reorient':
            for (M, s) in spec['maps']:
                for t in spec['window']:
                    out.append(X.xform(K2, M, s, t))
        return out

    def scenes(self, shard):
        b1, b2, i0, i1 = shard
        K1 = self.pose(A.body(b1))
        for img in self.placements(b1, b2)[i0:i1]:
            yield (K1, self.pose(img))

    def eval(self, scene):
        return eval_inter('C03', self.name, scene[0], scene[1], forms=('fn',), measures=True)

    def nontrivial(self, cell):
        return not cell.endswith('|None')


def families(tier):
    fams = []
    if tier == 'quick':
        bodies = A.QUICK_BODIES
        pairs = [(a, b) for a in bodies for b in bodies]
        for pose in A.poses(tier):
            fams.append(BodyPairs('translate', pose, pairs, {'window': window(-2, 2, 1)}))
            fams.append(BodyPairs('align', pose, pairs, {'limit': 1}))
            fams.append(BodyPairs('nested', pose, [(b, b) for b in bodies],
                                  {'scales': (F(1, 2), 2, 1), 'offsets': ((0, 0, 0), (F(1, 4), 0, 0), (0, F(-1, 4), F(1, 4)))}))
            fams.append(BodyPairs('reorient', pose, pairs,
                                  {'maps': ((A.P1.M, F(1, 2)), (ROT345Z, F(1, 4)), (RX90, 1)), 'window': window(-1, 1, 1)[:7]}))
        return fams
    polys = ['triangle', 'square', 'parallelogram', 'pentagon', 'hexagon', 'octagon']
    phs = ['tetrahedron', 'box', 'prism', 'pyramid', 'octahedron', 'cut-cube', 'hull7']
    bodies = polys + phs
    pairs = [(a, b) for a in bodies for b in bodies]
    qp = [(a, b) for a in A.QUICK_BODIES for b in A.QUICK_BODIES]
    for pose in A.poses(tier):
        if pose.name in ('P0', 'P1'):
            fams.append(BodyPairs('translate', pose, pairs, {'window': window(-2, 2, 1)}))
            fams.append(BodyPairs('align', pose, qp, {'limit': None}))
        else:
            fams.append(BodyPairs('translate', pose, qp, {'window': window(-2, 2, 1)}))
            fams.append(BodyPairs('align', pose, qp, {'limit': 1}))
        fams.append(BodyPairs('nested', pose, [(b, b) for b in list(A.POLYGONS) + list(A.POLYHEDRA)],
                              {'scales': (F(1, 2), 2, 1, F(3, 2)), 'offsets': ((0, 0, 0), (F(1, 4), 0, 0), (0, F(-1, 4), F(1, 4)), (F(1, 2), F(1, 2), 0))}))
        fams.append(BodyPairs('reorient', pose, pairs if pose.name == 'P0' else qp,
                              {'maps': ((A.P1.M, F(1, 2)), (A.P2.M, F(1, 4)), (A.P3.M, 1), (ROT345Z, F(1, 4)), (ROT90Z, 1), (RX90, 1)),
                               'window': window(-1, 1, 1)}))
    fams.append(BodyPairs('translate-half', A.P0, qp, {'window': window(-2, 2, F(1, 2))}))
    fams[-1].kind = 'translate'
    return fams


def run(tier, seed):
    A.validate_catalogue()
    fams = families(tier)
    res = core.run_families('C03', fams, seed)
    res.rule = ('ordered pairs of catalogue bodies (K1, g(K2)+t): t over the stated translation window / all feature-point differences / '
                'nested scalings / exact affine re-orientations g, whole scene under each pose; result kind, vertex set, face count and '
                'length/area/volume compared with the exact vertex enumeration; non-trivial = non-empty exact intersection')
    res.alphabets = {f.name: f.total for f in fams}
    return res


def replay(family, scene):
    a, b = core.dec(scene)
    return eval_inter('C03', family, a, b, forms=('fn',), measures=True)[1]
