"""C03 — intersection of two convex polygons / polyhedra is the exact convex set.

E1: ordered pairs of catalogue bodies under (a) lattice / half-lattice translations,
(b) feature alignments, (c) nested scalings, (d) exact affine re-orientations of the second
body, (e) coplanar and crossing polygon pairs; whole scenes under every pose of the tier."""
from fractions import Fraction as F
from itertools import product

from .. import core, lib, exact as X, alphabet as A
from ..core import Family
from ..icheck import eval_inter, eval_moved_inter
from .C02 import base_features

EXTRA_HASHSEEDS = (1,)       # thorough tier re-runs the quick space under a second pinned hash seed
LEVEL = 'exploration'
TECHNIQUE = 'bounded-exhaustive enumeration of catalogue body pairs x relative placements x poses on the real code vs exact vertex enumeration'

ID = ((1, 0, 0), (0, 1, 0), (0, 0, 1))
ROT90Z = ((0, -1, 0), (1, 0, 0), (0, 0, 1))
ROT345Z = ((3, -4, 0), (4, 3, 0), (0, 0, 4))       # x 1/4 : 3-4-5 rotation about z scaled by 5/4 (z kept)
RX90 = ((1, 0, 0), (0, 0, -1), (0, 1, 0))


def window(lo, hi, step, dims=3):
    n = int((hi - lo) / step)
    vals = [lo + i * F(step) for i in range(n + 1)]
    vals.sort(key=lambda v: (abs(v), v))
    if dims == 3:
        ts = list(product(vals, vals, vals))
    else:
        ts = [(a, b, 0) for a in vals for b in vals]
    ts.sort(key=lambda t: (max(abs(c) for c in t), sum(abs(c) for c in t), t))
    return ts


def align_features(o, limit):
    if limit is None:
        return base_features(o)
    vs = [X.frv(v) for v in o[1]][:4]
    es = [A.mid(a, b) for a, b in X.edges_of(o)][:3]
    fs = []
    if o[0] == 'ConvexPolyhedron':
        for n, cyc in X.facets_of(o)[:2]:
            a, b, c = cyc[0], cyc[1], cyc[2]
            fs.append(tuple(F(2 * a[i] + b[i] + c[i], 4) for i in range(3)))
    return vs + es + fs + [X.interior_point(o)]


class BodyPairs(Family):
    """scenes (K1, g(K2)+tau) for tau in a list computed per shard."""
    scene_timeout = 300.0

    def __init__(self, kind, pose, pairs, spec):
        self.name = '%s/%s' % (kind, pose.name)
        self.kind, self.pose, self.spec = kind, pose, spec
        self.pairs = pairs
        self._shards = []
        self.total = 0
        for (b1, b2) in pairs:
            n = len(self.placements(b1, b2))
            self.total += n
            step = 25 if (b1 in A.POLYHEDRA and b2 in A.POLYHEDRA) else 120
            for i in range(0, n, step):
                self._shards.append((b1, b2, i, min(i + step, n)))

    def shards(self):
        return self._shards

    def placements(self, b1, b2):
        """list of exact bodies: images of K2."""
        K1, K2 = A.body(b1), A.body(b2)
        kind, spec = self.kind, self.spec
        out = []
        if kind == 'translate':
            for t in spec['window']:
                out.append(X.xform(K2, ID, 1, t))
        elif kind == 'align':
            seen = set()
            for f1 in align_features(K1, spec['limit']):
                for f2 in align_features(K2, spec['limit']):
                    t = X.sub(f1, f2)
                    if t not in seen:
                        seen.add(t)
                        out.append(X.xform(K2, ID, 1, t))
        elif kind == 'nested':
            c = X.interior_point(K1)
            for s in spec['scales']:
                for off in spec['offsets']:
                    # s*K2' centred so that K1's interior point is fixed, then shifted
                    img = X.xform(K1, ID, s, X.add(X.scal(1 - F(s), c), off))
                    out.append(img)
        elif kind == 'probe':
            # a small copy of K2 placed near every vertex of K1 (inside, towards the centre) and just outside it
            c1 = X.interior_point(K1)
            c2 = X.interior_point(K2)
            for v in K1[1]:
                for lam in spec['lams']:
                    centre = X.add(v, X.scal(lam, X.sub(c1, v)))
                    for s_ in spec['scales']:
                        out.append(X.xform(K2, ID, s_, X.sub(centre, X.scal(F(s_), c2))))
        elif kind == 'flush':
            # K2 slid inside the plane of a common face (face contact with many different overlap polygons)
            for a_ in spec['steps']:
                for b_ in spec['steps']:
                    t = X.add(X.scal(a_, spec['u']), X.scal(b_, spec['v']))
                    out.append(X.xform(K2, ID, 1, t))
        elif kind == 'reorient':
            for (M, s) in spec['maps']:
                for t in spec['window']:
                    out.append(X.xform(K2, M, s, t))
        elif kind == 'reorient48':
            # BOTH bodies are mapped by the same signed axis permutation, K2 additionally shifted (pairs of images, see scenes())
            for (M, s) in spec['maps']:
                for t in spec['window']:
                    out.append((X.xform(K1, M, s), X.xform(K2, M, s, X.mat_apply(M, t))))
        return out

    def scenes(self, shard):
        b1, b2, i0, i1 = shard
        K1 = self.pose(A.body(b1))
        for img in self.placements(b1, b2)[i0:i1]:
            if self.kind == 'reorient48':
                yield (self.pose(img[0]), self.pose(img[1]))
                continue
            yield (K1, self.pose(img))

    def eval(self, scene):
        return eval_inter('C03', self.name, scene[0], scene[1], forms=('fn',), measures=True)

    def nontrivial(self, cell):
        return not cell.endswith('|None')


# --------------------------------------------------------------------------- generic irrational poses

import math as _math
from Geometry3D import intersection as _inter, Point as _Point, ConvexPolygon as _CPG, ConvexPolyhedron as _CPH
from .. import fgeom
from ..core import Viol as _Viol

ROTS = [((1, 1, 1), 1.0), ((0, 0, 1), 0.7), ((1, 2, -1), 2.2), ((3, -1, 2), 0.35), ((1, 0, 0), 1.234), ((-2, 1, 4), 2.9),
        ((0, 1, 0), 0.05), ((1, -1, 0), _math.pi / 3), ((2, 3, 6), _math.sqrt(2)), ((0, 0, 1), _math.pi / 4)]
SHIFTS = [(0.0, 0.0, 0.0), (0.1234, -0.377, 0.25), (0.6180339887, 0.3141592653, -0.2718281828), (1.05, 0.55, 0.45), (-0.4142135623, 1.0, 0.7320508075),
          (1.5, 0.25, -0.125), (0.3333333333, 0.6666666666, 1.1), (2.2360679775, -1.0, 0.1)]
GBODIES = ['tetrahedron', 'box', 'pyramid', 'prism', 'triangle', 'square', 'pentagon']


def lib_from_float(body, fverts):
    V = body[1]
    P = [_Point(*p) for p in fverts]
    if body[0] == 'ConvexPolygon':
        return _CPG(tuple(P))
    return _CPH(tuple(_CPG(tuple(P[i] for i in on)) for n, d, on in X.hull_facets(V)))


def eval_generic(fam, scene):
    b1, b2, ri, si = scene
    K1, K2 = A.body(b1), A.body(b2)
    R = fgeom.rot(*ROTS[int(ri)])
    t = SHIFTS[int(si)]
    c2 = X.interior_point(K2)
    c2f = tuple(float(c) for c in c2)
    # rotate K2 about its own centre, then shift
    f2 = [tuple(a + b for a, b in zip(fgeom.fapply(R, (0.0, 0.0, 0.0), fgeom.fsub(tuple(float(c) for c in v), c2f)), tuple(c2f[i] + t[i] for i in range(3))))
          for v in K2[1]]
    f1 = [tuple(float(c) for c in v) for v in K1[1]]
    scale = 4.0
    consA, consB = fgeom.body_constraints(K1, f1), fgeom.body_constraints(K2, f2)
    verts, why = fgeom.generic_intersection(consA, consB, scale)
    if why:
        return 'skip:' + why, []
    hq = [c for p in f1 + f2 + verts for c in p]
    for n, d, e in consA + consB:
        hq += list(n) + [d]
    if not fgeom.hash_band_ok(hq):
        return 'skip:hash-boundary', []
    dim = (2 if K1[0] == 'ConvexPolygon' else 3) + (2 if K2[0] == 'ConvexPolygon' else 3) - 3
    if not verts:
        kind = 'None'
    else:
        kind = {1: 'Segment', 2: 'ConvexPolygon', 3: 'ConvexPolyhedron'}[dim]
        need = {1: 2, 2: 3, 3: 4}[dim]
        if (dim == 1 and len(verts) != 2) or len(verts) < need:
            return 'skip:degenerate-generic', []
    cell = '%s,%s|generic|%s' % (K1[0], K2[0], kind)
    viols = []
    for form in ('fn', 'fn-swapped'):
        la = lib.to_lib(K1)
        lb = lib.construct(K2[0], lambda: lib_from_float(K2, f2))
        r = lib.call(_inter, la, lb) if form == 'fn' else lib.call(_inter, lb, la)
        why = None
        if isinstance(r, lib.Raised):
            why = 'raises:' + r.cls
        elif lib.tname(r) != kind:
            why = 'wrong-kind:%s/%s' % (lib.tname(r), kind)
        elif kind != 'None':
            if kind == 'Segment':
                pts = [lib._c(r.start_point), lib._c(r.end_point)]
            elif kind == 'ConvexPolygon':
                pts = [lib._c(p) for p in r.points]
            else:
                pts = [lib._c(p) for p in r.point_set]
            if not lib.match_points(pts, verts, 1e-8):
                why = 'wrong-value'
        if why:
            viols.append(_Viol('C03|generic|%s|%s,%s|%s|%s' % (form, K1[0], K2[0], kind, why), core.enc(('generic',) + tuple(scene)),
                               [kind, [list(v) for v in verts]], lib.describe(r),
                               'generic pose: intersection(%s, %s rotated by %r about its centre and shifted by %r)' % (b1, b2, ROTS[int(ri)], t)))
    return cell, viols


class MovedPairs(BodyPairs):
    def eval(self, scene):
        return eval_moved_inter('C03', self.name, scene[0], scene[1])


class Generic(Family):
    scene_timeout = 300.0

    def __init__(self, bodies, rots, shifts):
        self.name = 'generic'
        self.sc = [(a, b, r, s_) for a in bodies for b in bodies for r in rots for s_ in shifts]
        self.total = len(self.sc)
        self._shards = [(i, min(i + 12, self.total)) for i in range(0, self.total, 12)]

    def shards(self):
        return self._shards

    def scenes(self, shard):
        return iter(self.sc[shard[0]:shard[1]])

    def enc_scene(self, s):
        return core.enc(('generic',) + tuple(s))

    def eval(self, s):
        return eval_generic(self.name, s)

    def nontrivial(self, cell):
        return not cell.endswith('|None')


def families(tier):
    fams = A.with_int_mode(_families(tier), tier)
    steps = (F(-1, 2), F(-1, 4), 0, F(1, 4), F(1, 2)) if tier == 'quick' else tuple(F(i, 8) for i in range(-6, 7))
    for pose in ((A.P0,) if tier == 'quick' else (A.P0, A.P1)):
        fl = BodyPairs('flush', pose, [('para-A', 'para-B'), ('para-B', 'para-A')], {'steps': steps, 'u': (1, 0, 0), 'v': (0, 4, -3)})
        fams.append(fl)
    # generic crossings (rotated slabs with coplanar overlapping faces, parallelograms whose planes meet in a line perpendicular
    # to an axis) under all 48 signed axis permutations
    gx = [('slab-A', 'slab-B'), ('slab-B', 'slab-A'), ('pgm-A', 'pgm-B'), ('pgm-B', 'pgm-A'), ('slab-A', 'pgm-B'), ('pgm-A', 'slab-B')]
    shifts = [(0, 0, 0)] if tier == 'quick' else [(0, 0, 0), (F(1, 2), 0, 0), (0, F(-1, 4), F(1, 2))]
    fams.append(BodyPairs('reorient48', A.P0, gx, {'maps': [(M, 1) for M in A.G48], 'window': shifts}))
    mb = A.QUICK_BODIES if tier == 'quick' else A.QUICK_BODIES + ['square', 'pyramid', 'prism']
    mv = MovedPairs('translate', A.P1, [(x, y) for x in mb for y in mb], {'window': window(-1, 1, 1)[::3] if tier == 'quick' else window(-1, 1, 1)})
    mv.name = 'moved/P1'
    fams.append(mv)
    if tier == 'quick':
        fams.append(Generic(['tetrahedron', 'box', 'triangle', 'square'], range(4), range(4)))
    else:
        fams.append(Generic(GBODIES, range(len(ROTS)), range(len(SHIFTS))))
    return fams


def _families(tier):
    fams = []
    if tier == 'quick':
        bodies = A.QUICK_BODIES
        pairs = [(a, b) for a in bodies for b in bodies]
        for pose in A.poses(tier):
            fams.append(BodyPairs('translate', pose, pairs, {'window': window(-2, 2, 1)}))
            fams.append(BodyPairs('align', pose, pairs, {'limit': 1}))
            fams.append(BodyPairs('nested', pose, [(b, b) for b in bodies],
                                  {'scales': (F(1, 2), 2, 1), 'offsets': ((0, 0, 0), (F(1, 4), 0, 0), (0, F(-1, 4), F(1, 4)))}))
            fams.append(BodyPairs('reorient', pose, pairs,
                                  {'maps': ((A.P1.M, F(1, 2)), (ROT345Z, F(1, 4)), (RX90, 1)), 'window': window(-1, 1, 1)[:7]}))
            fams.append(BodyPairs('probe', pose, [(a, b) for a in ('pyramid', 'spire', 'cut-cube', 'skew-tetra') for b in ('box', 'tetrahedron', 'square')],
                                  {'lams': (F(1, 4), F(-1, 8)), 'scales': (F(1, 8),)}))
        return fams
    polys = ['triangle', 'square', 'parallelogram', 'pentagon', 'hexagon', 'octagon']
    phs = ['tetrahedron', 'box', 'prism', 'pyramid', 'octahedron', 'cut-cube', 'hull7']
    bodies = polys + phs
    pairs = [(a, b) for a in bodies for b in bodies]
    qp = [(a, b) for a in A.QUICK_BODIES for b in A.QUICK_BODIES]
    for pose in A.poses(tier):
        if pose.name in ('P0', 'P1'):
            fams.append(BodyPairs('translate', pose, pairs, {'window': window(-2, 2, 1)}))
            fams.append(BodyPairs('align', pose, qp, {'limit': None}))
        else:
            fams.append(BodyPairs('translate', pose, qp, {'window': window(-2, 2, 1)}))
            fams.append(BodyPairs('align', pose, qp, {'limit': 1}))
        fams.append(BodyPairs('nested', pose, [(b, b) for b in list(A.POLYGONS) + list(A.POLYHEDRA)],
                              {'scales': (F(1, 2), 2, 1, F(3, 2)), 'offsets': ((0, 0, 0), (F(1, 4), 0, 0), (0, F(-1, 4), F(1, 4)), (F(1, 2), F(1, 2), 0))}))
        fams.append(BodyPairs('probe', pose, [(a, b) for a in A.POLYHEDRA for b in ('box', 'tetrahedron', 'square', 'octahedron')],
                              {'lams': (F(1, 4), F(1, 2), F(-1, 8)), 'scales': (F(1, 8), F(1, 4))}))
        fams.append(BodyPairs('reorient', pose, pairs if pose.name == 'P0' else qp,
                              {'maps': ((A.P1.M, F(1, 2)), (A.P2.M, F(1, 4)), (A.P3.M, 1), (ROT345Z, F(1, 4)), (ROT90Z, 1), (RX90, 1)),
                               'window': window(-1, 1, 1)}))
    half = BodyPairs('translate', A.P0, qp, {'window': window(-2, 2, F(1, 2))})
    half.name = 'translate-half/P0'
    fams.append(half)
    return fams


def run(tier, seed):
    A.validate_catalogue()
    fams = families(tier)
    res = core.run_families('C03', fams, seed)
    res.rule = ('ordered pairs of catalogue bodies (K1, g(K2)+t): t over the stated translation window / all feature-point differences / '
                'nested scalings / exact affine re-orientations g, whole scene under each pose; result kind, vertex set, face count and '
                'length/area/volume compared with the exact vertex enumeration; non-trivial = non-empty exact intersection')
    res.alphabets = {f.name: f.total for f in fams}
    return res


def replay(family, scene):
    sc = core.dec(scene)
    if sc[0] == 'generic':
        return eval_generic(family, sc[1:])[1]
    a, b = sc
    if family.startswith('moved'):
        return eval_moved_inter('C03', family, a, b)[1]
    return eval_inter('C03', family, a, b, forms=('fn',), measures=True)[1]
