"""C14 — shape builders produce the specified inscribed shapes for every pose.

E1: product of centres x radii x axis directions (all of D1/D2 plus a fixed near-axis
catalogue on both sides of the SMALL_ANGLE threshold) x resolutions.  References are closed
forms evaluated in floating point (relative 1e-9), as the property prescribes."""
import copy
import math
from fractions import Fraction as F
from itertools import product, permutations

from Geometry3D import (Circle, Cylinder, Cone, Sphere, Parallelogram, Parallelepiped, Point, Vector,
                        ConvexPolygon, ConvexPolyhedron)

from .. import core, lib, exact as X, alphabet as A
from ..core import Viol, Family
from ..snapshot import snapshot

LEVEL = 'exploration'
TECHNIQUE = 'bounded-exhaustive enumeration of builder parameter products on the real code vs closed-form references'

CENTRES = ((0, 0, 0), (1, -2, 0.5), (-3, 4, 2))
RADII = (0.375, 1, 2.5, 7.75)


def near_axis():
    base = [(1, .05, 0), (1, .09, .03), (1, .11, 0), (1, 0, .2), (-1, .05, 0), (-1, .11, .02), (-1, -.09, .03)]
    out = []
    for v in base:
        for pm in permutations(range(3)):
            w = tuple(v[pm[i]] for i in range(3))
            if w not in out:
                out.append(w)
    return out


NEAR = near_axis()


def rel(a, b, tol=1e-9):
    return lib.close_rel(a, b, tol, 1e-12)


def vsub(a, b):
    return (a[0] - b[0], a[1] - b[1], a[2] - b[2])


def vlen(a):
    return math.sqrt(a[0] * a[0] + a[1] * a[1] + a[2] * a[2])


def polygon_float_problems(r, scale):
    """convex, planar, CCW about its normal (float body)."""
    out = []
    pts = [lib._c(p) for p in r.points]
    n = lib._c(r.plane.n)
    ln = vlen(n)
    m = len(pts)
    for i in range(m):
        a, b, c = pts[i], pts[(i + 1) % m], pts[(i + 2) % m]
        s = X.dot(X.cross(vsub(b, a), vsub(c, b)), n) / ln
        if not s > 1e-9 * scale * scale / (m * m):
            out.append('face-not-convex-ccw')
            break
    for p in pts:
        if abs(X.dot(vsub(p, lib._c(r.plane.p)), n)) > 1e-8 * ln * scale:
            out.append('vertex-off-plane')
            break
    return out


def polyhedron_float_problems(r, scale):
    out = []
    V, E, Fc = len(r.point_set), len(r.segment_set), len(r.convex_polygons)
    if V - E + Fc != 2:
        out.append('euler')
    pts = [lib._c(p) for p in r.point_set]
    cp = lib._c(r.center_point)
    nedges = 0
    for f in r.convex_polygons:
        n = lib._c(f.plane.n)
        ln = vlen(n)
        p0 = lib._c(f.points[0])
        nedges += len(f.points)
        if not X.dot(n, vsub(cp, p0)) / ln < -1e-9 * scale:
            out.append('centre-not-strictly-inside')
            break
        if any(X.dot(n, vsub(v, p0)) / ln > 1e-8 * scale for v in pts):
            out.append('face-normal-not-outward-or-not-convex')
            break
        out += polygon_float_problems(f, scale)
        if out:
            break
    if nedges != 2 * E:
        out.append('edge-face-incidence')
    return out


def unit(d):
    l = vlen(d)
    return (d[0] / l, d[1] / l, d[2] / l)


def on_rings(pts, c, axis, rings, n, r_tol=1e-9):
    """every point lies on one of the rings [(axial offset, radius)], n per ring."""
    u = unit(axis)
    counts = [0] * len(rings)
    for p in pts:
        w = vsub(p, c)
        ax = X.dot(w, u)
        rad = vlen(vsub(w, (ax * u[0], ax * u[1], ax * u[2])))
        for i, (off, rr) in enumerate(rings):
            sc = max(1.0, abs(off), rr)
            if abs(ax - off) <= 1e-9 * sc and abs(rad - rr) <= 1e-9 * sc:
                counts[i] += 1
                break
        else:
            return 'vertex-not-on-specified-surface'
    want = [n if rr > 0 else 1 for off, rr in rings]
    if counts != want:
        return 'wrong-vertex-count-per-ring'
    return None


def ngon_area(n, r):
    return n / 2 * r * r * math.sin(2 * math.pi / n)


def chord(n, r):
    return 2 * r * math.sin(math.pi / n)


def eval_scene(fam, s):
    if s[0] == 'after-reassign':
        # the axis Vector of the first build is re-assigned in place (v[i] = c) and used again
        first, second = s[1], s[2]
        axis = Vector(*first[3])
        lib.call(lambda: {'Circle': lambda: Circle(Point(*first[1]), axis, first[2], first[4]),
                          'Cylinder': lambda: Cylinder(Point(*first[1]), first[2], axis, first[4]),
                          'Cone': lambda: Cone(Point(*first[1]), first[2], axis, first[4])}[first[0]]())
        for i in range(3):
            axis[i] = second[3][i]
        r = lib.call(lambda: {'Circle': lambda: Circle(Point(*second[1]), axis, second[2], second[4]),
                              'Cylinder': lambda: Cylinder(Point(*second[1]), second[2], axis, second[4]),
                              'Cone': lambda: Cone(Point(*second[1]), second[2], axis, second[4])}[second[0]]())
        fresh = lib.call(lambda: {'Circle': lambda: Circle(Point(*second[1]), Vector(*second[3]), second[2], second[4]),
                                  'Cylinder': lambda: Cylinder(Point(*second[1]), second[2], Vector(*second[3]), second[4]),
                                  'Cone': lambda: Cone(Point(*second[1]), second[2], Vector(*second[3]), second[4])}[second[0]]())
        a, b = lib.canon(r), lib.canon(fresh)
        from .C07 import near
        if isinstance(r, lib.Raised) != isinstance(fresh, lib.Raised) or (not isinstance(r, lib.Raised) and not near(a, b, 1e-9)):
            return 'after-reassign|' + second[0], [Viol('C14|after-in-place-reassignment-of-the-axis|%s|differs-from-fresh-vector' % second[0], core.enc(s), lib.describe(fresh),
                                                        lib.describe(r), 'same axis given as a Vector object that was used before and re-assigned in place')]
        return 'after-reassign|' + second[0], []
    if s[0] == 'after':
        # first build the same shape along another direction (the result is discarded), then the real scene
        first = s[1]
        lib.call(lambda: {'Circle': lambda: Circle(Point(*first[1]), Vector(*first[3]), first[2], first[4]),
                          'Cylinder': lambda: Cylinder(Point(*first[1]), first[2], Vector(*first[3]), first[4]),
                          'Cone': lambda: Cone(Point(*first[1]), first[2], Vector(*first[3]), first[4])}[first[0]]())
        cell, viols = eval_scene(fam, s[2])
        for v in viols:
            v.scene = core.enc(s)
            v.sig = v.sig.replace('C14|', 'C14|after-another-direction|', 1)
        return 'after|' + cell, viols
    kind = s[0]
    viols = []
    cell = kind

    def bad(sym, exp=None, got=None):
        viols.append(Viol('C14|%s|%s' % (kind, sym), core.enc(s), exp, lib.describe(got), '%s%r: %s' % (kind, s[1:], sym)))

    def build(fn, args):
        before = snapshot(args)
        r = lib.call(fn, *args)
        after = snapshot(args)
        if before != after:
            bad('argument-modified')
        if isinstance(r, lib.Raised):
            bad('raises:' + r.cls, 'a shape', r)
            return None
        # the caller goes on using its arguments (a centre Point reused as a cursor, a direction vector rescaled): the shape
        # already built must not follow them - every check below looks at the shape after this
        for a_ in args:
            if isinstance(a_, Point):
                a_.move(Vector(3.0, -2.0, 15.0))
            elif isinstance(a_, Vector):
                a_[0], a_[1], a_[2] = a_[1] * 2 + 1, a_[2] - 3, a_[0] + 0.5
        return r

    if kind in ('Circle', 'Cylinder', 'Cone'):
        c, rad, d, n = s[1], s[2], s[3], s[4]
        near = '-near-axis' if d in NEAR else ('-axis' if sum(1 for x in d if x != 0) == 1 else '')
        cell = kind + near
        scale = max(1.0, rad, vlen(d))
        if kind == 'Circle':
            r = build(Circle, (lib.use_point_elsewhere(Point(*c)), Vector(*d), rad, n))
            if r is None:
                return cell, viols
            if not isinstance(r, ConvexPolygon) or len(r.points) != n:
                bad('wrong-vertex-count', n, r)
                return cell, viols
            pr = polygon_float_problems(r, scale)
            for x in pr:
                bad(x)
            e = on_rings([lib._c(p) for p in r.points], c, d, [(0.0, rad)], n)
            if e:
                bad(e)
            pts = [lib._c(p) for p in r.points]
            if any(not rel(vlen(vsub(pts[i], pts[(i + 1) % n])), chord(n, rad)) for i in range(n)):
                bad('unequal-angular-steps')
            a, l = lib.call(r.area), lib.call(r.length)
            if not rel(a, ngon_area(n, rad)):
                bad('wrong-area', ngon_area(n, rad), a)
            if not rel(l, n * chord(n, rad)):
                bad('wrong-length', n * chord(n, rad), l)
            return cell, viols
        h = vlen(d)
        fn = Cylinder if kind == 'Cylinder' else Cone
        r = build(fn, (lib.use_point_elsewhere(Point(*c)), rad, Vector(*d), n))
        if r is None:
            return cell, viols
        if not isinstance(r, ConvexPolyhedron):
            bad('wrong-kind', 'ConvexPolyhedron', r)
            return cell, viols
        V, E, Fc = len(r.point_set), len(r.segment_set), len(r.convex_polygons)
        want = (2 * n, 3 * n, n + 2) if kind == 'Cylinder' else (n + 1, 2 * n, n + 1)
        if (V, E, Fc) != want:
            bad('wrong-counts', list(want), [V, E, Fc])
            return cell, viols
        for x in polyhedron_float_problems(r, scale):
            bad(x)
        rings = [(0.0, rad), (h, rad)] if kind == 'Cylinder' else [(0.0, rad), (h, 0.0)]
        e = on_rings([lib._c(p) for p in r.point_set], c, d, rings, n)
        if e:
            bad(e)
        # equal angular steps: the n-gon faces have equal chords
        for f in r.convex_polygons:
            if len(f.points) == n and n > 4 or (len(f.points) == n and kind == 'Cylinder' and abs(abs(X.dot(lib._c(f.plane.n), unit(d))) - 1) < 1e-6):
                pts = [lib._c(p) for p in f.points]
                if any(not rel(vlen(vsub(pts[i], pts[(i + 1) % n])), chord(n, rad)) for i in range(n)):
                    bad('unequal-angular-steps')
                    break
        A_ = ngon_area(n, rad)
        if kind == 'Cylinder':
            vol, area = A_ * h, 2 * A_ + n * chord(n, rad) * h
        else:
            vol = A_ * h / 3
            area = A_ + n * 0.5 * chord(n, rad) * math.sqrt(h * h + (rad * math.cos(math.pi / n)) ** 2)
        v, a = lib.call(r.volume), lib.call(r.area)
        if not rel(v, vol):
            bad('wrong-volume', vol, v)
        if not rel(a, area):
            bad('wrong-area', area, a)
        return cell, viols
    if kind == 'Sphere':
        c, rad, n1, n2 = s[1:]
        scale = max(1.0, rad)
        r = build(Sphere, (lib.use_point_elsewhere(Point(*c)), rad, n1, n2))
        if r is None:
            return cell, viols
        V, E, Fc = len(r.point_set), len(r.segment_set), len(r.convex_polygons)
        wV, wF = n1 * (2 * n2 - 1) + 2, 2 * n1 * n2
        want = (wV, wV + wF - 2, wF)
        if (V, E, Fc) != want:
            bad('wrong-counts', list(want), [V, E, Fc])
            return cell, viols
        for x in polyhedron_float_problems(r, scale):
            bad(x)
        rings = []
        for i in range(-(n2 - 1), n2):
            lat = i * math.pi / (2 * n2)
            rings.append((rad * math.sin(lat), rad * math.cos(lat)))
        rings += [(rad, 0.0), (-rad, 0.0)]
        e = on_rings([lib._c(p) for p in r.point_set], c, (0, 0, 1), rings, n1)
        if e:
            bad(e)
        vol = area = 0.0
        lats = [i * math.pi / (2 * n2) for i in range(0, n2 + 1)]
        for i in range(n2):
            r1, r2 = rad * math.cos(lats[i]), rad * math.cos(lats[i + 1])
            hh = rad * math.sin(lats[i + 1]) - rad * math.sin(lats[i])
            A1, A2 = ngon_area(n1, r1), ngon_area(n1, r2)
            vol += 2 * hh / 3 * (A1 + A2 + math.sqrt(A1 * A2))
            slant = math.sqrt(hh * hh + ((r1 - r2) * math.cos(math.pi / n1)) ** 2)
            area += 2 * n1 * (chord(n1, r1) + chord(n1, r2)) / 2 * slant
        v, a = lib.call(r.volume), lib.call(r.area)
        if not rel(v, vol):
            bad('wrong-volume', vol, v)
        if not rel(a, area):
            bad('wrong-area', area, a)
        return cell, viols
    if kind == 'Parallelogram':
        b, v1, v2 = s[1:]
        # the base point is a caller-owned Point that earlier served other, moved, lines / segments / half-lines
        r = build(Parallelogram, (lib.use_point_elsewhere(lib.P(b)), lib.V(v1), lib.V(v2)))
        if r is None:
            return cell, viols
        e = X.Pg((b, X.add(b, v1), X.add(X.add(b, v1), v2), X.add(b, v2)))
        ok, why = lib.matches(r, e)
        if not ok:
            bad(why, core.enc(e), r)
            return cell, viols
        a = lib.call(r.area)
        if not rel(a, math.sqrt(X.n2(X.cross(v1, v2)))):
            bad('wrong-area', math.sqrt(X.n2(X.cross(v1, v2))), a)
        return cell, viols
    if kind == 'Parallelepiped':
        b, v1, v2, v3 = s[1:]
        r = build(Parallelepiped, (lib.use_point_elsewhere(lib.P(b)), lib.V(v1), lib.V(v2), lib.V(v3)))
        if r is None:
            return cell, viols
        vs = []
        for i, j, k in product((0, 1), repeat=3):
            p = b
            if i:
                p = X.add(p, v1)
            if j:
                p = X.add(p, v2)
            if k:
                p = X.add(p, v3)
            vs.append(p)
        e = X.Ph(vs)
        ok, why = lib.matches(r, e)
        if not ok:
            bad(why, core.enc(e), r)
            return cell, viols
        from .C09 import polyhedron_problems
        for sym, det in polyhedron_problems(r, e):
            bad(sym, None, det)
        v = lib.call(r.volume)
        if not rel(v, abs(X.det3(v1, v2, v3))):
            bad('wrong-volume', abs(X.det3(v1, v2, v3)), v)
        return cell, viols
    raise core.HarnessError('bad scene')


class ListFamily(Family):
    scene_timeout = 120.0

    def __init__(self, name, scenes, chunk=40):
        self.name = name
        self._sc = scenes
        self.total = len(scenes)
        self._shards = [(i, min(i + chunk, len(scenes))) for i in range(0, len(scenes), chunk)]

    def shards(self):
        return self._shards

    def scenes(self, shard):
        return iter(self._sc[shard[0]:shard[1]])

    def eval(self, s):
        return eval_scene(self.name, s)

    def nontrivial(self, cell):
        return True


def fl3(v):
    return tuple(float(x) for x in v)


def families(tier):
    if tier == 'quick':
        ns = (3, 4, 5, 8, 13, 24)
        dirs = [fl3(d) for d in A.D1] + NEAR
        radii = (0.375, 2.5)
        centres = (CENTRES[1],)
        sph = [(c, r, n1, n2) for c in CENTRES[:2] for r in (1, 2.5) for n1 in (3, 4, 7, 12) for n2 in (2, 3, 4, 5)]
        vecs = A.D1
        pe_step = 7
    else:
        ns = tuple(range(3, 25))
        dirs = [fl3(d) for d in A.D2] + NEAR
        radii = RADII
        centres = CENTRES
        sph = [(c, r, n1, n2) for c in CENTRES for r in RADII for n1 in range(3, 13) for n2 in range(2, 6)]
        vecs = A.D1
        pe_step = 1
    fams = []
    hs = (1.0, 2.5)
    fams.append(ListFamily('Circle', [('Circle', c, r, d, n) for c in centres for r in radii for d in dirs for n in ns], chunk=200))
    for kind in ('Cylinder', 'Cone'):
        sc = [(kind, c, r, tuple(x * k for x in d), n) for c in centres[:2] for r in radii for d in dirs for k in hs[:1 if tier == 'quick' else 2] for n in ns]
        fams.append(ListFamily(kind, sc, chunk=25))
    # the same directions given as short and as long vectors (the axis / normal need not be a unit vector)
    axisdirs = [fl3(d) for d in A.D1] + NEAR[:12]
    scaled = []
    for kind in ('Circle', 'Cylinder', 'Cone'):
        for d in axisdirs:
            for k in (0.25, 0.5, 12.0):
                for n in ((3, 8) if tier == 'quick' else (3, 5, 8, 24)):
                    scaled.append((kind, CENTRES[1], 1.5, tuple(x * k for x in d), n))
    scaled += [('Circle', CENTRES[0], 2.0, (1.0, 12.0, 0.0), 6), ('Cylinder', CENTRES[0], 2.0, (1.0, 12.0, 0.0), 6), ('Circle', CENTRES[0], 2.0, (-1.0, 0.0, 30.0), 5),
               ('Cone', CENTRES[0], 2.0, (0.999, 9.0, -9.0), 7)]
    fams.append(ListFamily('scaled-axis', scaled, chunk=25))
    # a direction that differs from an axis (or lattice) direction only in the third decimal, built right after that direction
    seq = []
    for kind in ('Circle', 'Cylinder', 'Cone'):
        for d in [fl3(x) for x in A.D1]:
            for eps_d in ((0.003, 0.002, -0.001), (-0.002, 0.004, 0.003)):
                d2 = tuple(a + b for a, b in zip(d, eps_d))
                seq.append(('after', (kind, CENTRES[0], 1.5, d, 5), (kind, CENTRES[1], 2.5, d2, 6)))
    for kind in ('Circle', 'Cylinder', 'Cone'):
        for d in [fl3(x) for x in A.D1][::2]:
            d2 = (d[1] * 3.0 + 0.5, d[2] - 1.0, d[0] * 2.0 + 0.25)
            seq.append(('after-reassign', (kind, CENTRES[0], 1.5, d, 5), (kind, CENTRES[1], 2.0, d2, 8)))
    fams.append(ListFamily('sequence', seq, chunk=20))
    fams.append(ListFamily('Sphere', [('Sphere',) + x for x in sph], chunk=4))
    pg = [('Parallelogram', b, X.scal(k, v1), v2) for b in ((0, 0, 0), (1, -2, F(1, 2))) for k in (1, 2, F(1, 2))
          for v1 in vecs for v2 in vecs if not X.is_zero(X.cross(v1, v2))]
    fams.append(ListFamily('Parallelogram', pg, chunk=200))
    trip = [(v1, v2, v3) for v1 in vecs for v2 in vecs for v3 in vecs if X.det3(v1, v2, v3) != 0]
    pp = [('Parallelepiped', (1, -2, F(1, 2)), v1, v2, v3) for (v1, v2, v3) in trip[::pe_step]]
    pp += [('Parallelepiped', (0, 0, 0), X.scal(2, v1), v2, X.scal(F(1, 2), v3)) for (v1, v2, v3) in trip[::pe_step * 5]]
    units = ((1, 0, 0), (0, 1, 0), (0, 0, 1))
    for b in product((-2, -1, 0), repeat=3):
        pp.append(('Parallelepiped', b, units[0], units[1], units[2]))
        pp.append(('Parallelepiped', b, units[1], units[2], units[0]))
        pg.append(('Parallelogram', b, units[0], units[1]))
        pg.append(('Parallelogram', b, units[1], units[2]))
    fams[-4 if False else [i for i, f in enumerate(fams) if f.name == 'Parallelogram'][0]] = ListFamily('Parallelogram', pg, chunk=200)
    fams.append(ListFamily('Parallelepiped', pp, chunk=40))
    return fams


def run(tier, seed):
    fams = families(tier)
    res = core.run_families('C14', fams, seed)
    res.rule = ('full product of the stated centres x radii x axis directions (lattice directions incl. all +-axis directions, and the fixed near-axis '
                'catalogue straddling SMALL_ANGLE) x resolutions per builder; Parallelogram over all independent lattice pairs, Parallelepiped over '
                'independent lattice triples (quick: every 7th); all distinct and non-trivial')
    res.alphabets = {f.name: f.total for f in fams}
    res.alphabets['near-axis catalogue'] = [list(v) for v in NEAR]
    return res


def replay(family, scene):
    return eval_scene(family, core.dec(scene))[1]
