"""C01 — intersection of two flat primitives is exactly their common point set.

E1 product enumeration: every ordered pair of flat objects built from a lattice box, under
every pose of the tier, compared with the closed-form exact model."""
from itertools import product

from Geometry3D import intersection

from .. import core, lib, exact as X, alphabet as A
from ..core import Viol, Family
from ..icheck import reused, eval_moved_inter

LEVEL = 'exploration'
TECHNIQUE = 'bounded-exhaustive enumeration of all lattice scene pairs x poses on the real code vs exact rational closed-form model'

KINDS = ('Line', 'HalfLine', 'Segment')


def mk_linelike(kind, p, q):
    if kind == 'Line':
        return X.Ln(p, X.sub(q, p))
    if kind == 'HalfLine':
        return X.Hl(p, X.sub(q, p))
    return X.Sg(p, q)


def plane_set(pts, normals):
    """distinct lattice planes (n, offset) through box points, each with two support points."""
    seen = {}
    for n in normals:
        for p in pts:
            key = (n, X.dot(n, p))
            seen.setdefault(key, []).append(p)
    out = []
    for (n, d), ps in seen.items():
        out.append(X.Pl(ps[0], n))
        if len(ps) > 1:
            out.append(X.Pl(ps[-1], X.scal(2, n)))
    return out


def eval_pair(fam, a, b, forms=('fn', 'method')):
    """a, b exact flat objects.  Returns (cell, viols)."""
    g = X.Guard()
    e, cell = X.inter_flat(a, b, g)
    cell = '%s,%s|%s' % (a[0], b[0], cell)
    if not g.ok():
        return 'skip:margin', []
    if not (X.coords_hash_ok(a) and X.coords_hash_ok(b) and X.coords_hash_ok(e)):
        return 'skip:hash-boundary', []
    viols = []
    sc = None
    for form in forms:
        if form == 'method' and a[0] == 'Point':
            continue
        if form == 'fn':
            # the first operand object is kept across the consecutive scenes that share it
            la, lb = (reused(a) if a[0] != 'Point' else lib.to_lib(a)), lib.to_lib(b)
        if form == 'fn':
            r = lib.call(intersection, la, lb)
        else:
            r = lib.call(la.intersection, lb)
        ok, why = lib.matches(r, e)
        if not ok:
            if sc is None:
                sc = core.enc((a, b))
            viols.append(Viol('C01|%s|%s|%s|%s' % (fam, form, cell, why), sc, core.enc(e), lib.describe(r),
                              'intersection(%s, %s) [%s form] expected %s got %s' % (a[0], b[0], form, e and e[0], lib.tname(r))))
    return cell, viols


class LL(Family):
    """line-like x line-like over all ordered point pairs of a box."""

    def __init__(self, pose, pts, chunk=24, name='LL'):
        self.name = name + '/' + pose.name
        self.pose = pose
        self.pairs = [(p, q) for p in pts for q in pts if p != q]
        self._shards = [(ka, kb, i, min(i + chunk, len(self.pairs)))
                        for ka in KINDS for kb in KINDS for i in range(0, len(self.pairs), chunk)]
        self.total = 9 * len(self.pairs) ** 2

    def shards(self):
        return self._shards

    def scenes(self, shard):
        ka, kb, i0, i1 = shard
        bs = [self.pose(mk_linelike(kb, r, s)) for r, s in self.pairs]
        for p, q in self.pairs[i0:i1]:
            a = self.pose(mk_linelike(ka, p, q))
            for b in bs:
                yield (a, b)

    def eval(self, scene):
        return eval_pair(self.name, scene[0], scene[1])

    def nontrivial(self, cell):
        return not (cell.endswith('skew') or cell.endswith('parallel-disjoint'))


class Mixed(Family):
    """pairs from two explicit object lists, both argument orders."""

    def __init__(self, name, pose, As, Bs, both_orders=True, chunk=8):
        self.name = '%s/%s' % (name, pose.name)
        self.pose = pose
        self.As, self.Bs = As, Bs
        self.both = both_orders
        self._shards = [(i, min(i + chunk, len(As))) for i in range(0, len(As), chunk)]
        self.total = len(As) * len(Bs) * (2 if both_orders else 1)

    def shards(self):
        return self._shards

    def scenes(self, shard):
        bs = [self.pose(b) for b in self.Bs]
        for a0 in self.As[shard[0]:shard[1]]:
            a = self.pose(a0)
            for b in bs:
                yield (a, b)
                if self.both:
                    yield (b, a)

    def eval(self, scene):
        return eval_pair(self.name, scene[0], scene[1])

    def nontrivial(self, cell):
        return not any(cell.endswith(x) for x in ('skew', 'parallel-disjoint', 'parallel-off-plane', 'parallel-distinct'))


class MovedMixed(Mixed):
    def eval(self, scene):
        return eval_moved_inter('C01', self.name, scene[0], scene[1])


def _pose_families(pose, big):
    pts = A.B1 if big else A.B0
    normals = A.D2 if big else A.D1
    linelikes = [mk_linelike(k, p, q) for k in KINDS for p in pts for q in pts if p != q]
    planes = plane_set(pts, normals)
    points = [X.Pt(p) for p in A.B0H]
    return [LL(pose, pts), Mixed('LP', pose, planes, linelikes, chunk=4), Mixed('PP', pose, planes, planes, both_orders=False, chunk=8),
            Mixed('PX', pose, points, linelikes + planes + points, chunk=4)], planes, linelikes, points


def families(tier):
    fams = []
    if tier == 'quick':
        for pose in A.poses(tier):
            f, planes, linelikes, points = _pose_families(pose, False)
            fams += f
        fams = A.with_int_mode(fams, tier)
        st = 7
    else:
        # budget: the big alphabets (box B1: 552 ordered point pairs, normals D2) for one numeric / constructor-form
        # variant per pose, the small alphabets (B0, D1) for every other variant
        primary = ('/P0#int', '/PZ#int#formB', '/P1', '/P2', '/P3', '/P4')
        big, small = [], []
        for pose in A.poses(tier):
            f, planes, linelikes, points = _pose_families(pose, True)
            big += f
            f2, planes, linelikes, points = _pose_families(pose, False)
            small += f2
        big = [f for f in A.with_int_mode(big, tier) if f.name[f.name.index('/'):] in primary]
        small = [f for f in A.with_int_mode(small, tier) if f.name[f.name.index('/'):] not in primary]
        fams = big + small
        st = 2
    graze = [X.Ln(p, d) for p in ((0, 0, 0), (1, 1, 0), (2, 0, 1)) for d in ((8, -7, 0), (0, 8, -7), (-7, 0, 8), (8, 7, 1), (1, 8, 7), (7, 1, -8), (-8, 7, 1))]
    graze += [X.Sg(l[1], X.add(l[1], l[2])) for l in graze[::2]] + [X.Hl(l[1], X.neg(l[2])) for l in graze[1::2]]
    for pose in (A.PZ, A.P1):
        gz = Mixed('graze', pose, graze, planes[::2 if tier == 'quick' else 1], chunk=2)
        fams.append(gz)
    # all line-likes of one lattice plane, posed into an upright plane whose horizontal slope (15/11) is not exactly
    # representable: every pair has xy-parallel directions, the case in which an elimination without proper pivoting
    # divides by rounding noise
    flat_pts = [p for p in (A.B0 if tier == 'quick' else A.B1) if p[2] == 0]
    fams.append(LL(A.P5, flat_pts, chunk=4, name='LL-upright'))
    if tier != 'quick':
        fams.append(LL(A.P4, flat_pts, chunk=4, name='LL-upright'))
    fams.append(MovedMixed('moved', A.P1, planes[::st] + linelikes[::st * 5], linelikes[::st] + planes[::st] + points[::3], both_orders=False, chunk=2))
    return fams


def run(tier, seed):
    A.validate_catalogue()
    fams = families(tier)
    res = core.run_families('C01', fams, seed)
    res.rule = ('every ordered pair of flat objects of each family (all ordered lattice point pairs of the box as Line/HalfLine/Segment, '
                'all distinct lattice planes, all half-lattice points) under every pose, each in function and method form; scenes are '
                'distinct by construction; non-trivial = oracle relation other than skew / parallel-disjoint')
    res.alphabets = {f.name: f.total for f in fams}
    return res


def replay(family, scene):
    a, b = core.dec(scene)
    if family.startswith('moved'):
        return eval_moved_inter('C01', family, a, b)[1]
    return eval_pair(family, a, b)[1]
