"""C04 — intersection is total, symmetric and typed over all operand type pairs.

E1: scene sets of C01-C03 (reduced alphabets, every relation cell still populated)
evaluated in all four call forms; result types checked against the documented table, which
is parsed at run time from docs/source/example_operation.rst; None operands."""
import os
import re

from Geometry3D import intersection

from .. import core, lib, exact as X, alphabet as A
from ..core import Viol, Family
from ..icheck import eval_inter, eval_moved_inter
from . import C01, C02, C03

LEVEL = 'exploration'
TECHNIQUE = 'bounded-exhaustive enumeration over all 49 ordered type pairs x relation cells x 4 call forms on the real code vs exact model and documented type table'

FORMS = ('fn', 'fn-swapped', 'method', 'method-swapped')

LITERAL = {
    ('Point', 'Point'): 'None, Point', ('Point', 'Line'): 'None, Point', ('Point', 'Plane'): 'None, Point',
    ('Point', 'Segment'): 'None, Point', ('Point', 'ConvexPolygon'): 'None, Point', ('Point', 'ConvexPolyhedron'): 'None, Point',
    ('Point', 'HalfLine'): 'None, Point', ('Line', 'Line'): 'None, Point, Line', ('Line', 'Plane'): 'None, Point, Line',
    ('Line', 'Segment'): 'None, Point, Segment', ('Line', 'ConvexPolygon'): 'None, Point, Segment',
    ('Line', 'ConvexPolyhedron'): 'None, Point, Segment', ('Line', 'HalfLine'): 'None, Point, HalfLine',
    ('Plane', 'Plane'): 'None, Line, Plane', ('Plane', 'Segment'): 'None, Point, Segment',
    ('Plane', 'ConvexPolygon'): 'None, Point, Segment, ConvexPolygon', ('Plane', 'ConvexPolyhedron'): 'None, Point, Segment, ConvexPolygon',
    ('Plane', 'HalfLine'): 'None, Point, HalfLine', ('Segment', 'Segment'): 'None, Point, Segment',
    ('Segment', 'ConvexPolygon'): 'None, Point, Segment', ('Segment', 'ConvexPolyhedron'): 'None, Point, Segment',
    ('Segment', 'HalfLine'): 'None, Point, Segment', ('ConvexPolygon', 'ConvexPolygon'): 'None, Point, Segment, ConvexPolygon',
    ('ConvexPolygon', 'ConvexPolyhedron'): 'None, Point, Segment, ConvexPolygon', ('ConvexPolygon', 'HalfLine'): 'None, Point, Segment',
    ('ConvexPolyhedron', 'ConvexPolyhedron'): 'None, Point, Segment, ConvexPolygon, ConvexPolyhedron',
    ('ConvexPolyhedron', 'HalfLine'): 'None, Point, Segment', ('HalfLine', 'HalfLine'): 'None, Point, Segment, HalfLine',
}

_TABLE = None


def doc_table():
    """{frozenset(type pair): set(result type names)} parsed from the documentation."""
    global _TABLE
    if _TABLE is not None:
        return _TABLE
    path = os.path.join(lib.REPO, 'docs', 'source', 'example_operation.rst')
    table = {}
    src = 'docs'
    try:
        rows = []
        with open(path) as f:
            for line in f:
                if line.startswith('|'):
                    cells = [c.strip() for c in line.strip().strip('|').split('|')]
                    if len(cells) == 3:
                        rows.append(cells)
        cur = None
        for a, b, out in rows:
            if a in X.ALL7 and b in X.ALL7:
                cur = frozenset((a, b))
                table[cur] = set(t.strip() for t in out.split(',') if t.strip())
            elif a == '' and b == '' and cur is not None:
                table[cur] |= set(t.strip() for t in out.split(',') if t.strip())
        if len(table) != 28:
            raise ValueError('parsed %d rows' % len(table))
    except Exception:
        src = 'literal-copy'
        table = {frozenset(k): set(t.strip() for t in v.split(',')) for k, v in LITERAL.items()}
    _TABLE = (table, src)
    return _TABLE


def type_viols(fam, a, b, cell):
    """result type of every call form must be documented for the pair."""
    table, src = doc_table()
    allowed = table.get(frozenset((a[0], b[0])))
    out = []
    la, lb = lib.to_lib(a), lib.to_lib(b)
    calls = [('fn', lambda: intersection(la, lb)), ('fn-swapped', lambda: intersection(lb, la))]
    if a[0] != 'Point':
        calls.append(('method', lambda: la.intersection(lb)))
    if b[0] != 'Point':
        calls.append(('method-swapped', lambda: lb.intersection(la)))
    for form, th in calls:
        r = lib.call(th)
        if isinstance(r, lib.Raised):
            continue  # reported by eval_inter
        if allowed is None or lib.tname(r) not in allowed:
            out.append(Viol('C04|%s|%s|%s,%s|undocumented-result-type:%s' % (fam.split('/')[0], form, a[0], b[0], lib.tname(r)), core.enc((a, b)),
                            sorted(allowed or []), lib.tname(r), 'result type not in the documented table (%s)' % src))
    return out


def eval4(fam, a, b):
    cell, viols = eval_inter('C04', fam, a, b, forms=FORMS)
    if cell.startswith('skip:'):
        return cell, viols
    if not viols:
        viols = type_viols(fam, a, b, cell)
    return cell, viols


class Wrap(Family):
    def __init__(self, inner, timeout=300.0):
        self.inner = inner
        self.name = inner.name
        self.total = inner.total
        self.scene_timeout = timeout

    def shards(self):
        return self.inner.shards()

    def scenes(self, shard):
        return self.inner.scenes(shard)

    def eval(self, s):
        return eval4(self.name, s[0], s[1])

    def nontrivial(self, cell):
        return not cell.endswith('|None')


def eval_none(fam, o):
    lo = lib.to_lib(o)
    viols = []
    calls = [('intersection(None,x)', lambda: intersection(None, lo)), ('intersection(x,None)', lambda: intersection(lo, None)),
             ('intersection(None,None)', lambda: intersection(None, None))]
    if o[0] != 'Point':
        calls.append(('x.intersection(None)', lambda: lo.intersection(None)))
    for name, th in calls:
        r = lib.call(th)
        if r is not None:
            viols.append(Viol('C04|none|%s|%s|%s' % (name, o[0], lib.tname(r)), core.enc(('none', o)), None, lib.describe(r), 'None operand must give None'))
    return 'none|' + o[0], viols


class MovedWrap(Wrap):
    def eval(self, s):
        return eval_moved_inter('C04', self.name, s[0], s[1])


class NoneFam(Family):
    def __init__(self):
        self.name = 'none'
        self.objs = [X.Pt((1, 2, 3)), X.Ln((0, 0, 0), (1, 1, 0)), X.Pl((0, 0, 1), (0, 1, 1)), X.Sg((0, 0, 0), (1, 2, 0)), X.Hl((0, 1, 0), (1, 0, 2)),
                     A.polygon('triangle'), A.polyhedron('tetrahedron')]
        self.total = len(self.objs)

    def shards(self):
        return [0]

    def scenes(self, shard):
        return iter(self.objs)

    def eval(self, o):
        return eval_none(self.name, o)


SMALL = [p for p in A.B0 if p[0] <= 2]


def families(tier):
    fams = [NoneFam()]
    if tier == 'quick':
        pts, normals = SMALL, A.D1
        poses_ll = [A.P1]
        fb = [('triangle', A.P1, (0, 2)), ('tetrahedron', A.P1, (0, 2)), ('hexagon', A.P0, (F12, 2))]
        bp_poses, bp_window = [A.P0, A.P1], C03.window(-1, 1, 1)
        bodies = A.QUICK_BODIES
    else:
        pts, normals = A.B0, A.D1
        poses_ll = [A.P0, A.P1, A.P3]
        fb = [(b, p, (-1, 0, F12, 2)) for b in A.QUICK_BODIES + ['pyramid', 'square'] for p in (A.P0, A.P1, A.P2)]
        bp_poses, bp_window = [A.P0, A.P1, A.P3], C03.window(-2, 2, 1)
        bodies = A.QUICK_BODIES + ['prism', 'pentagon']
    linelikes = [C01.mk_linelike(k, p, q) for k in C01.KINDS for p in pts for q in pts if p != q]
    planes = C01.plane_set(pts, normals)
    points = [X.Pt(p) for p in (A.B0H if tier != 'quick' else [p for p in A.B0H if p[0] <= 2])]
    for pose in poses_ll:
        fams.append(Wrap(C01.LL(pose, pts, chunk=12)))
        fams.append(Wrap(C01.Mixed('LP', pose, planes, linelikes, both_orders=False, chunk=4)))
        fams.append(Wrap(C01.Mixed('PP', pose, planes, planes, both_orders=False, chunk=8)))
        fams.append(Wrap(C01.Mixed('PX', pose, points, linelikes + planes + points, both_orders=False, chunk=4)))
    for b, pose, params in fb:
        inner = C02.FlatBody(b, pose, params)
        fams.append(WrapHalf(inner))
    pairs = [(a, b) for a in bodies for b in bodies]
    mv = C03.BodyPairs('translate', A.P1, pairs, {'window': C03.window(-1, 1, 1)[::4]})
    mv.name = 'moved-bodies/P1'
    fams.append(MovedWrap(mv))
    mf = C01.Mixed('moved-flats', A.P1, planes[::5] + linelikes[::25], linelikes[::9] + planes[::7], both_orders=False, chunk=2)
    fams.append(MovedWrap(mf))
    for pose in bp_poses:
        fams.append(Wrap(C03.BodyPairs('translate', pose, pairs, {'window': bp_window})))
        fams.append(Wrap(C03.BodyPairs('nested', pose, [(b, b) for b in bodies],
                                       {'scales': (_F(1, 2), 2), 'offsets': ((0, 0, 0), (_F(1, 4), 0, 0))})))
    return fams


from fractions import Fraction as _F
F12 = _F(1, 2)


class WrapHalf(Wrap):
    """FlatBody yields both orders; the four call forms already cover them, keep (flat, body)."""

    def scenes(self, shard):
        for a, b in self.inner.scenes(shard):
            if b[0] in X.BODY and a[0] not in X.BODY:
                yield (a, b)


def run(tier, seed):
    A.validate_catalogue()
    fams = families(tier)
    res = core.run_families('C04', fams, seed)
    pairs = set()
    for fam, cells in res.cells.items():
        for c in cells:
            tp = c.split('|')[0]
            if ',' in tp:
                pairs.add(frozenset(tp.split(',')))
    res.extra['unordered_type_pairs_covered'] = len(pairs)
    res.extra['type_table_source'] = doc_table()[1]
    if len(pairs) != 28:
        raise core.HarnessError('only %d of 28 unordered type pairs are populated' % len(pairs))
    res.rule = ('scene sets of C01-C03 on reduced alphabets, each scene evaluated as intersection(a,b), intersection(b,a), a.intersection(b), '
                'b.intersection(a): no exception, all forms denote the exact set, result type in the documented table; None operands; '
                'non-trivial = non-empty exact intersection')
    res.alphabets = {f.name: f.total for f in fams}
    return res


def replay(family, scene):
    sc = core.dec(scene)
    if sc[0] == 'none':
        return eval_none(family, sc[1])[1]
    if family.startswith('moved'):
        return eval_moved_inter('C04', family, sc[0], sc[1])[1]
    return eval4(family, sc[0], sc[1])[1]
