"""C05 — membership (`in`) agrees with exact geometric containment.

E1: containers of every type (lattice line-likes, lattice planes, catalogue bodies) x poses;
point candidates on / near every boundary feature; every supported composite candidate."""
from fractions import Fraction as F

from .. import core, lib, exact as X, alphabet as A
from ..core import Viol, Family
from .C01 import mk_linelike, plane_set, KINDS
from .C02 import base_features, plane_normals
from ..icheck import faces_hash_ok, safe_pose

LEVEL = 'exploration'
TECHNIQUE = 'bounded-exhaustive enumeration of container x candidate pairs x poses on the real code vs exact containment'

SUPPORTED = {
    'Point': ('Line', 'HalfLine', 'Segment', 'Plane', 'ConvexPolygon', 'ConvexPolyhedron'),
    'Segment': ('Line', 'HalfLine', 'Segment', 'Plane', 'ConvexPolygon', 'ConvexPolyhedron'),
    'HalfLine': ('Line', 'HalfLine', 'Plane'),
    'Line': ('Plane',),
    'ConvexPolygon': ('Plane', 'ConvexPolyhedron'),
}


def eval_in(fam, outer, inner):
    if outer[0] not in SUPPORTED.get(inner[0], ()):
        raise core.HarnessError('unsupported membership pair %s in %s' % (inner[0], outer[0]))
    g = X.Guard()
    want = X.contains(outer, inner, g)
    if not g.ok():
        return 'skip:margin', []
    if not (faces_hash_ok(outer) and faces_hash_ok(inner)):
        return 'skip:hash-boundary', []
    cell = '%s in %s|%s' % (inner[0], outer[0], want)
    lo, li = lib.to_lib(outer), lib.to_lib(inner)
    got = lib.call(lambda: li in lo)
    if got is want:
        return cell, []
    why = ('raises:' + got.cls) if isinstance(got, lib.Raised) else 'wrong-membership'
    return cell, [Viol('C05|%s|%s in %s|%s|%s' % (fam.split('/')[0], inner[0], outer[0], want, why), core.enc((outer, inner)), want,
                       lib.describe(got), '%s in %s expected %s' % (inner[0], outer[0], want))]


MOVED_V = ((1, 2, -1), (0, 0, 3), (-2, 1, 0))
ID3 = ((1, 0, 0), (0, 1, 0), (0, 0, 1))


def eval_moved_in(fam, outer, inner):
    """membership, then move the container in place (twice, thrice) and ask again with the candidate at
    the translated position."""
    g = X.Guard()
    want = X.contains(outer, inner, g)
    if not g.ok() or not (faces_hash_ok(outer) and faces_hash_ok(inner)):
        return 'skip:guard', []
    # container and candidates are built from caller-owned Points that also serve other, moved, lines / segments
    with lib.shared_points():
        lo = lib.to_lib(outer)
        first = lib.call(lambda: lib.to_lib(inner) in lo)
    if first is not want:
        return 'moved', [Viol('C05|moved|%s in %s|%s|operands-built-from-shared-points' % (inner[0], outer[0], want), core.enc((outer, inner)), want,
                              lib.describe(first), 'membership with operands built from Point objects that also served other (moved) lines, segments and half-lines')]
    t = (0, 0, 0)
    kept = None
    for i, v in enumerate(MOVED_V):
        m = lib.call(lo.move, lib.V(v))
        if i == 0 and not isinstance(m, lib.Raised):
            kept = (m, v)
        if isinstance(m, lib.Raised):
            return 'moved', [Viol('C05|moved|%s|move-raises:%s' % (outer[0], m.cls), core.enc((outer, inner)), 'moved', repr(m), '')]
        t = X.add(t, v)
        li = lib.to_lib(X.xform(inner, ID3, 1, t))
        for who, obj in (('receiver', lo), ('returned', m)):
            got = lib.call(lambda: li in obj)
            if got is not want:
                return 'moved', [Viol('C05|moved|%s in %s|%s|%s-after-%d-in-place-moves' % (inner[0], outer[0], who, want, i + 1), core.enc((outer, inner)), want,
                                      lib.describe(got), 'membership in the %s container after moving it in place %d times' % (who, i + 1))]
    # the polygon / polyhedron returned by the FIRST move is a new object: it stays where it was returned, whatever happened to
    # the receiver afterwards (Line.move / Plane.move return the receiver itself or share its state - nothing is claimed there)
    if kept is not None and outer[0] in X.BODY:
        with lib.shared_points():
            li = lib.to_lib(X.xform(inner, ID3, 1, kept[1]))
        got = lib.call(lambda: li in kept[0])
        if got is not want:
            return 'moved', [Viol('C05|moved|%s in %s|%s|object-returned-by-an-earlier-move-follows-the-receiver' % (inner[0], outer[0], want), core.enc((outer, inner)), want,
                                  lib.describe(got), 'membership in the object returned by the first move, after the receiver was moved twice more')]
    return 'moved|%s in %s|%s' % (inner[0], outer[0], want), []


class MovedCands(Family):
    def __init__(self, inner_family, step):
        self.inner = inner_family
        self.name = 'moved/' + inner_family.name
        self.step = step
        self.total = inner_family.total // step

    def shards(self):
        return self.inner.shards()

    def scenes(self, shard):
        for i, s in enumerate(self.inner.scenes(shard)):
            if i % self.step == 0:
                yield s

    def eval(self, scene):
        return eval_moved_in(self.name, scene[0], scene[1])

    def nontrivial(self, cell):
        return cell.endswith('True')


class Pairs(Family):
    def __init__(self, name, pose, outers, inners, chunk=8):
        self.name = '%s/%s' % (name, pose.name)
        self.pose, self.outers, self.inners = pose, outers, inners
        self._shards = [(i, min(i + chunk, len(outers))) for i in range(0, len(outers), chunk)]
        self.total = len(outers) * len(inners)

    def shards(self):
        return self._shards

    def scenes(self, shard):
        ins = [self.pose(x) for x in self.inners]
        for o0 in self.outers[shard[0]:shard[1]]:
            o = self.pose(o0)
            for x in ins:
                yield (o, x)

    def eval(self, scene):
        return eval_in(self.name, scene[0], scene[1])

    def nontrivial(self, cell):
        return cell.endswith('True')


class BodyCands(Family):
    """candidates generated from a body's own features."""

    def __init__(self, bname, pose, tier):
        K = A.body(bname)
        pose = safe_pose(pose, K)
        self.name = 'body/%s/%s' % (bname, pose.name)
        self.pose = pose
        fps = A.feature_points(K)
        cands = [X.Pt(p) for lab, p in fps]
        base = base_features(K)
        outside = [p for lab, p in fps if lab.startswith('outside') or lab.startswith('off-plane') or lab == 'far']
        if tier == 'quick':
            outside = outside[::5]
        segs = []
        for i, p in enumerate(base):
            for q in base[i + 1:]:
                segs.append(X.Sg(p, q))
            for q in outside:
                segs.append(X.Sg(p, q))
                segs.append(X.Sg(q, p))
        cands += segs
        if K[0] == 'ConvexPolyhedron':
            c = X.interior_point(K)
            for n, cyc in X.facets_of(K):
                cands.append(X.Pg(cyc))
                m = len(cyc)
                fc = tuple(sum(F(v[i]) for v in cyc) / m for i in range(3))
                cands.append(X.Pg(tuple(A.mid(v, fc) for v in cyc)))                      # shrunk face (on boundary)
                cands.append(X.Pg(tuple(A.mid(v, c) for v in cyc)))                       # pulled inside
                w = X.sub(fc, c)
                cands.append(X.Pg(tuple(X.add(v, X.scal(F(1, 64), w)) for v in cyc)))     # just outside
                cands.append(X.Pg(tuple(X.add(A.mid(v, fc), X.scal(F(1, 2), w)) for v in cyc)))
                cands.append(X.Pg(tuple(X.add(fc, X.scal(F(3, 2), X.sub(v, fc))) for v in cyc)))  # enlarged, pokes out
                # straddling polygons: some vertices inside, one far outside, listed in every rotation
                # (the constructor keeps the first listed vertex first)
                inner = [A.mid(v, c) for v in cyc]
                ic = A.mid(fc, c)
                for k in range(min(len(inner), 3)):
                    strad = list(inner)
                    strad[k] = X.add(inner[k], X.scal(3, X.sub(inner[k], ic)))   # pushed outwards inside the polygon's own plane
                    for r in range(len(strad)):
                        cands.append(X.Pg(tuple(strad[r:] + strad[:r])))
            for f in base[:: (3 if tier == 'quick' else 1)]:
                for nrm in plane_normals(K)[:: (2 if tier == 'quick' else 1)]:
                    e, _ = X.inter(X.Pl(f, nrm), K)
                    if e is not None and e[0] == 'ConvexPolygon':
                        if e not in cands:
                            cands.append(e)
        self.K = K
        self.cands = cands
        self.total = len(cands)
        self._shards = [(i, min(i + 200, len(cands))) for i in range(0, len(cands), 200)]

    def shards(self):
        return self._shards

    def scenes(self, shard):
        K = self.pose(self.K)
        for c in self.cands[shard[0]:shard[1]]:
            yield (K, self.pose(c))

    def eval(self, scene):
        return eval_in(self.name, scene[0], scene[1])

    def nontrivial(self, cell):
        return cell.endswith('True')


def families(tier):
    fams = []
    pts = A.B0 if tier == 'quick' else A.B1
    normals = A.D1 if tier == 'quick' else A.D2
    pairs = [(p, q) for p in pts for q in pts if p != q]
    ll = {k: [mk_linelike(k, p, q) for p, q in pairs] for k in KINDS}
    planes = plane_set(A.B0, normals)
    points = [X.Pt(p) for p in A.B0H]
    bodies = A.QUICK_BODIES if tier == 'quick' else list(A.POLYGONS) + list(A.POLYHEDRA)
    for pose in A.poses(tier):
        fams.append(Pairs('Pt-in-linelike', pose, ll['Line'] + ll['HalfLine'] + ll['Segment'], points))
        fams.append(Pairs('Pt-in-plane', pose, planes, points))
        fams.append(Pairs('Sg-in-linelike', pose, ll['Line'] + ll['HalfLine'] + ll['Segment'], ll['Segment'], chunk=6))
        fams.append(Pairs('Hl-in-Ln/Hl', pose, ll['Line'] + ll['HalfLine'], ll['HalfLine'], chunk=6))
        fams.append(Pairs('linelike-in-plane', pose, planes, ll['Line'] + ll['HalfLine'] + ll['Segment'], chunk=4))
        fams.append(Pairs('Pg-in-plane', pose, [X.Pl(X.add(f, off), n) for b in ('triangle', 'hexagon') for f in base_features(A.body(b))[::2]
                                                for n in plane_normals(A.body(b)) for off in ((0, 0, 0), (0, 0, 1), (0, 0, -1))],
                          [A.body(b) for b in A.POLYGONS]))
        for b in bodies:
            fams.append(BodyCands(b, pose, tier))
    for b in (('hexagon', 'tetrahedron') if tier == 'quick' else bodies):
        # (thorough: every 6th candidate of every body, under each of the four constructor forms)
        fams.append(MovedCands(BodyCands(b, A.P1, tier), 3 if tier == 'quick' else 6))
    fams.append(MovedCands(Pairs('linelike-in-plane', A.P1, planes, ll['Segment'] + ll['HalfLine'], chunk=4), 11 if tier == 'quick' else 9))
    # oblique bodies placed so that one vertex (hence >= 3 face planes) sits exactly at the origin
    for b in (['tetrahedron', 'cut-cube', 'hexagon'] if tier == 'quick' else ['tetrahedron', 'cut-cube', 'hexagon', 'pyramid', 'prism', 'octahedron', 'triangle']):
        K0 = A.body(b)
        for vi in range(len(K0[1]) if tier != 'quick' else min(4, len(K0[1]))):
            for base in ((A.P1,) if tier == 'quick' else (A.P1, A.P2, A.P3)):
                img = base.point(K0[1][vi])
                pose = A.Pose('%s@v%d' % (base.name, vi), base.M, base.s, tuple(base.t[i] - img[i] for i in range(3)))
                fams.append(BodyCands(b, pose, tier))
    return A.with_int_mode(fams, tier)


def run(tier, seed):
    A.validate_catalogue()
    fams = families(tier)
    res = core.run_families('C05', fams, seed)
    res.rule = ('every (container, candidate) pair of each family: lattice line-likes / planes x half-lattice points and lattice segments, '
                'half-lines, lines; catalogue bodies x their feature points (on, just inside, just outside every vertex/edge/face, far), '
                'segments between features, faces / shrunk / shifted / enlarged faces and cross-section polygons; under every pose; '
                'non-trivial = exactly contained')
    res.alphabets = {f.name: f.total for f in fams}
    return res


def replay(family, scene):
    o, x = core.dec(scene)
    if family.startswith('moved'):
        return eval_moved_in(family, o, x)[1]
    return eval_in(family, o, x)[1]
