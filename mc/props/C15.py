"""C15 — degenerate or invalid constructions are rejected, never returned.

E1: every invalid-input class of the statement instantiated over lattice positions and
poses; the call must raise; returning anything (including an exception object) is a
violation."""
from fractions import Fraction as F
from itertools import combinations, permutations, product

import Geometry3D as G
from Geometry3D import (Point, Vector, Line, Segment, HalfLine, Plane, ConvexPolygon, ConvexPolyhedron, Pyramid,
                        Parallelogram, Parallelepiped, Circle, Cylinder, Cone, intersection, distance, angle,
                        parallel, orthogonal, volume, get_segment_from_point_list)

from .. import core, lib, exact as X, alphabet as A
from ..core import Viol, Family

LEVEL = 'exploration'
TECHNIQUE = 'bounded-exhaustive enumeration of every invalid-input class over lattice instances on the real code; oracle = the input is invalid by construction'

TINY = 1e-12


def must_raise(kind, label, scene, thunk):
    r = lib.call(thunk)
    if isinstance(r, lib.Raised):
        return '%s|raised:%s' % (kind, r.cls), []
    return '%s|returned' % kind, [Viol('C15|%s|%s|returned-not-raised:%s' % (kind, label, lib.tname(r)), core.enc(scene), 'an exception',
                                       lib.describe(r), '%s %s returned %s instead of raising' % (kind, label, lib.tname(r)))]


def fp(p):
    return tuple(float(c) for c in p)


def objects7():
    o = (0.0, 0.0, 0.0)
    tet = X.Ph(A.POLYHEDRA['tetrahedron'])
    return {
        'Point': lambda: Point(1.0, 2.0, 3.0),
        'Line': lambda: Line(Point(0, 0, 0), Vector(1, 1, 0)),
        'Plane': lambda: Plane(Point(0, 0, 1), Vector(0, 1, 1)),
        'Segment': lambda: Segment(Point(0, 0, 0), Point(1, 2, 0)),
        'HalfLine': lambda: HalfLine(Point(0, 1, 0), Vector(1, 0, 2)),
        'ConvexPolygon': lambda: lib.to_lib(X.Pg(A.POLYGONS['triangle'])),
        'ConvexPolyhedron': lambda: lib.to_lib(tet),
        'Vector': lambda: Vector(1.0, 0.0, 2.0),
    }


EXTRA = {'int': lambda: 3, 'str': lambda: 'x', 'None': lambda: None, 'zero': lambda: 0, 'zero-float': lambda: 0.0, 'empty-str': lambda: '',
         'empty-tuple': lambda: (), 'empty-list': lambda: [], 'empty-dict': lambda: {}, 'False': lambda: False, 'tuple3': lambda: (1.0, 2.0, 3.0)}

SUPPORTED = {
    'intersection': {(a, b) for a in X.ALL7 for b in X.ALL7},
    'distance': {('Point', 'Point'), ('Point', 'Line'), ('Line', 'Point'), ('Line', 'Line'), ('Point', 'Plane'), ('Plane', 'Point'),
                 ('Line', 'Plane'), ('Plane', 'Line')},
}
for _op in ('angle', 'parallel', 'orthogonal'):
    SUPPORTED[_op] = {('Line', 'Line'), ('Line', 'Plane'), ('Plane', 'Line'), ('Plane', 'Plane'), ('Vector', 'Vector')}


def eval_scene(fam, s):
    k = s[0]
    if k == 'after-prelude':
        run_prelude()
        return eval_scene(fam, s[1])
    if k == 'at-tolerance':
        # the same invalid-input classes with the tolerance configured coarser or finer than the default: "well inside eps"
        # means eps/1000 of the CURRENT eps
        from Geometry3D import set_eps, set_sig_figures
        global TINY
        old = TINY
        try:
            (set_eps(10.0 ** -s[2]) if s[1] == 'set_eps' else set_sig_figures(s[2]))
            TINY = 10.0 ** -(s[2] + 3)
            cell, v = eval_scene(fam, s[3])
            return 'eps=1e-%d|%s' % (s[2], cell), [Viol(x.sig.replace('C15|', 'C15|eps=1e-%d|' % s[2], 1), core.enc(s), x.expected, x.observed, x.msg) for x in v]
        finally:
            TINY = old
            set_eps()
            set_sig_figures()
            lib.assert_default_tolerance()
    if k == 'zero-length':
        ctor, form, p, axis = s[1], s[2], s[3], s[4]
        C = {'Line': Line, 'Segment': Segment, 'HalfLine': HalfLine}[ctor]
        P = Point(*fp(p))
        if form == 'same-point':
            th = lambda: C(P, Point(*fp(p)))
        elif form == 'zero-vector':
            th = lambda: C(P, Vector(0.0, 0.0, 0.0))
        elif form == 'tiny-point':
            q = list(fp(p))
            for ax in (range(3) if axis == 3 else (axis,)):
                q[ax] += TINY
            th = lambda: C(P, Point(*q))
        else:
            v = [TINY if axis in (ax, 3) else 0.0 for ax in range(3)]
            th = lambda: C(P, Vector(*v))
        return must_raise('zero-length-' + ctor, form, s, th)
    if k == 'polygon-tiny':
        # the listed vertices plus a copy of vertex s[3] displaced by TINY (eps/1000 of the configured eps) along axis s[4]
        label, pts, dup, axis = s[1], [list(fp(p)) for p in s[2]], s[3], s[4]
        q = list(pts[dup])
        for ax in (range(3) if axis == 3 else (axis,)):
            q[ax] += TINY
        if label == 'collinear':
            pts[dup] = q
        else:
            pts.append(q)
        return must_raise('polygon-' + label + '-by-tolerance', 'n%d' % len(pts), s, lambda: ConvexPolygon(tuple(Point(*p) for p in pts)))
    if k == 'polygon':
        label, pts = s[1], s[2]
        return must_raise('polygon-' + label, 'n%d' % len(pts), s, lambda: ConvexPolygon(tuple(Point(*fp(p)) for p in pts)))
    if k == 'zeroed-vector':
        # a Vector that served legally while non-zero (length taken, normalised, used as normal / direction of valid objects) is
        # zeroed in place by coordinate assignment or by the documented in-place Line.move of a line it supports
        ctor, how, p, d = s[1], s[2], s[3], s[4]
        v = Vector(*fp(d))
        P = Point(*fp(p))
        v.length(), v.normalized(), Plane(P, v), Line(P, v), v.angle(Vector(1.0, 0.5, 0.25))
        if how == 'setitem':
            for i in range(3):
                v[i] = 0.0
        else:
            Line(v, Vector(1.0, 1.0, 0.0)).move(Vector(*[-c for c in fp(d)]))
        w = Vector(0.0, 1.0, -2.0) if abs(fp(d)[0]) > 0 else Vector(1.0, 0.0, 2.0)
        th = {'Plane': lambda: Plane(P, v), 'Line': lambda: Line(P, v), 'Segment': lambda: Segment(P, v), 'HalfLine': lambda: HalfLine(P, v),
              'Plane-PVV': lambda: Plane(P, w, v), 'Parallelogram': lambda: Parallelogram(P, v, w),
              'Parallelepiped': lambda: Parallelepiped(P, w, Vector(3.0, 1.0, 1.0), v)}[ctor]
        return must_raise('zeroed-vector-' + ctor, how, s, th)
    if k == 'plane':
        label = s[1]
        if label == 'zero-normal':
            return must_raise('plane', label, s, lambda: Plane(Point(*fp(s[2])), Vector(0.0, 0.0, 0.0)))
        if label == 'collinear-points':
            return must_raise('plane', label, s, lambda: Plane(*[Point(*fp(p)) for p in s[2]]))
        if label == 'parallel-vectors':
            return must_raise('plane', label, s, lambda: Plane(Point(*fp(s[2])), Vector(*fp(s[3])), Vector(*fp(s[4]))))
        if label == 'gf-zero':
            return must_raise('plane', label, s, lambda: Plane(0, 0, 0, s[2]))
    if k == 'parallelogram':
        return must_raise('parallelogram', s[1], s, lambda: Parallelogram(Point(*fp(s[2])), Vector(*fp(s[3])), Vector(*fp(s[4]))))
    if k == 'parallelepiped':
        return must_raise('parallelepiped', s[1], s,
                          lambda: Parallelepiped(Point(*fp(s[2])), Vector(*fp(s[3])), Vector(*fp(s[4])), Vector(*fp(s[5]))))
    if k == 'pyramid-moved':
        cyc, apex, v1, v2 = s[1], s[2], s[3], s[4]
        base = lib.construct('ConvexPolygon', lambda: ConvexPolygon(tuple(Point(*fp(X.sub(X.sub(p, v1), v2))) for p in cyc)))
        base.move(Vector(*fp(v1)))
        base.move(Vector(*fp(v2)))
        return must_raise('pyramid', 'apex-in-plane-of-a-base-moved-twice', s, lambda: Pyramid(base, Point(*fp(apex)), direct_call=False))
    if k == 'pyramid':
        cyc, apex = s[1], s[2]
        return must_raise('pyramid', 'apex-in-base-plane', s,
                          lambda: Pyramid(ConvexPolygon(tuple(Point(*fp(p)) for p in cyc)), Point(*fp(apex)), direct_call=False))
    if k == 'faces':
        label, faces = s[1], s[2]
        return must_raise('polyhedron-' + label, 'F%d' % len(faces), s,
                          lambda: ConvexPolyhedron(tuple(ConvexPolygon(tuple(Point(*fp(p)) for p in cyc)) for cyc in faces)))
    if k == 'circle':
        fn = {'Circle': lambda n: Circle(Point(0, 0, 0), Vector(*fp(s[3])), 1.5, n),
              'Cylinder': lambda n: Cylinder(Point(0, 0, 0), 1.5, Vector(*fp(s[3])), n),
              'Cone': lambda n: Cone(Point(0, 0, 0), 1.5, Vector(*fp(s[3])), n)}[s[1]]
        return must_raise('n<3', s[1], s, lambda: fn(s[2]))
    if k == 'pointlist':
        label, pts = s[1], s[2]
        return must_raise('get_segment_from_point_list', label, s, lambda: get_segment_from_point_list([Point(*fp(p)) for p in pts]))
    if k == 'move':
        tname, arg = s[1], s[2]
        obj = lib.construct(tname, objects7()[tname])
        a = {'int': 3, 'tuple': (1, 2, 3), 'None': None, 'Point': Point(1, 0, 0), 'list': [1.0, 0.0, 0.0], 'str': 'v'}[arg]
        return must_raise('move', '%s.move(%s)' % (tname, arg), s, lambda: obj.move(a))
    if k == 'operands':
        op, ta, tb, form = s[1], s[2], s[3], s[4]
        mk = objects7()
        extra = EXTRA
        a = lib.construct(ta, mk.get(ta) or extra[ta])
        b = lib.construct(tb, mk.get(tb) or extra[tb])
        fn = {'intersection': intersection, 'distance': distance, 'angle': angle, 'parallel': parallel, 'orthogonal': orthogonal}[op]
        if form == 'fn':
            return must_raise('unsupported-' + op, '%s,%s' % (ta, tb), s, lambda: fn(a, b))
        return must_raise('unsupported-' + op, '%s.%s(%s)' % (ta, op, tb), s, lambda: getattr(a, op)(b))
    if k == 'volume':
        mk = objects7()
        extra = EXTRA
        a = lib.construct(s[1], mk.get(s[1]) or extra[s[1]])
        return must_raise('unsupported-volume', s[1], s, lambda: volume(a))
    raise core.HarnessError('bad scene %r' % (s,))


def run_prelude():
    """a history of perfectly legal operations on objects obtained from the library's own factories and on
    throw-away composites; none of it may weaken any later validity check."""
    from Geometry3D import origin, x_unit_vector, y_unit_vector, z_unit_vector, x_axis, xy_plane
    l = Line(Vector.zero(), Vector(1.0, 2.0, 2.0))
    l.move(Vector(1.0, -2.0, 3.0))
    z = Vector.zero()
    z[1] = 5
    o = origin()
    o.move(Vector(0.5, 0.5, 0.5))
    u = x_unit_vector()
    u[0] = 0
    Line(origin(), z_unit_vector()).move(y_unit_vector())
    a = x_axis()
    a.move(Vector(0.0, 0.0, 7.0))
    pl = xy_plane()
    pl.move(Vector(0.0, 0.0, 1.0))
    hash(l), hash(pl), l == a


class ListFamily(Family):
    def __init__(self, name, scenes, chunk=300):
        self.name = name
        self._sc = scenes
        self.total = len(scenes)
        self._shards = [(i, min(i + chunk, len(scenes))) for i in range(0, len(scenes), chunk)]

    def shards(self):
        return self._shards

    def scenes(self, shard):
        return iter(self._sc[shard[0]:shard[1]])

    def eval(self, s):
        return eval_scene(self.name, s)

    def nontrivial(self, cell):
        return True


def collinear_tuples(pts, k):
    out = []
    for sub in combinations(pts, k):
        d = X.sub(sub[1], sub[0])
        if all(X.is_zero(X.cross(d, X.sub(q, sub[0]))) for q in sub[2:]):
            out.append(sub)
    return out


def families(tier):
    fams = []
    poses = A.poses(tier)
    sc = []
    for pose in poses:
        for p in A.B0:
            q = pose.point(p)
            for ctor in ('Line', 'Segment', 'HalfLine'):
                sc.append(('zero-length', ctor, 'same-point', q, 0))
                sc.append(('zero-length', ctor, 'zero-vector', q, 0))
                for ax in range(3):
                    sc.append(('zero-length', ctor, 'tiny-point', q, ax))
                    sc.append(('zero-length', ctor, 'tiny-vector', q, ax))
    fams.append(ListFamily('zero-length', sc))
    fams.append(ListFamily('zero-length-after-legal-history', [('after-prelude', x) for x in sc[::7]]))
    # tolerance configurations x zero-length classes (axis 3 = all three coordinates displaced together)
    sct = []
    for p in A.B0[:4]:
        q = poses[-1].point(p)
        for ctor in ('Line', 'Segment', 'HalfLine'):
            inner = [('zero-length', ctor, 'same-point', q, 0), ('zero-length', ctor, 'zero-vector', q, 0)]
            inner += [('zero-length', ctor, f, q, ax) for f in ('tiny-point', 'tiny-vector') for ax in (0, 1, 2, 3)]
            for setter in ('set_eps', 'set_sig_figures'):
                for k_ in ((4, 7, 12) if tier == 'quick' else range(3, 13)):
                    sct += [('at-tolerance', setter, k_, x) for x in inner]
    # fewer than three tolerance-distinct vertices at the configured tolerance (three distinct vertices that are collinear
    # only up to the tolerance are NOT asserted: the library accepts them at every tolerance, the plane through them has a
    # unit normal, and the statement's tolerance example is about coincident points)
    for p in A.B0[:3]:
        a_ = poses[-1].point(p)
        b_ = poses[-1].point(X.add(p, (1, 0, 1)))
        c_ = poses[-1].point(X.add(p, (2, 0, 2)))
        for setter in ('set_eps', 'set_sig_figures'):
            for k_ in ((4, 7, 12) if tier == 'quick' else range(3, 13)):
                for ax in (0, 1, 2, 3):
                    sct.append(('at-tolerance', setter, k_, ('polygon-tiny', 'two-distinct', (a_, b_), 1, ax)))
                    sct.append(('at-tolerance', setter, k_, ('polygon-tiny', 'two-distinct', (b_, a_, a_), 0, ax)))
    fams.append(ListFamily('zero-length-at-configured-tolerance', sct))
    # polygons
    sc = []
    box = A.B0 if tier == 'quick' else A.B1
    for pose in poses:
        pp = [pose.point(p) for p in A.B0[:8]]
        for a in pp[:4]:
            for n in (1, 2, 3, 4):
                sc.append(('polygon', 'one-distinct', (a,) * n))
        for a, b in permutations(pp[:5], 2):
            for pat in ((0, 1), (0, 1, 0), (0, 0, 1), (1, 0, 0), (0, 1, 0, 1), (0, 0, 1, 1), (0, 1, 1, 1)):
                sc.append(('polygon', 'two-distinct', tuple((a, b)[i] for i in pat)))
        for tri in collinear_tuples(box, 3):
            for pm in permutations(tri):
                sc.append(('polygon', 'collinear', tuple(pose.point(p) for p in pm)))
        for quad in collinear_tuples(box, 4):
            for pm in permutations(quad):
                sc.append(('polygon', 'collinear', tuple(pose.point(p) for p in pm)))
        cube = list(product((0, 1), repeat=3))
        src = cube if tier == 'quick' else list(dict.fromkeys(cube + A.B0[:12]))
        for quad in combinations(src, 4):
            if X.det3(X.sub(quad[1], quad[0]), X.sub(quad[2], quad[0]), X.sub(quad[3], quad[0])) != 0:
                for pm in permutations(quad):
                    sc.append(('polygon', 'non-coplanar', tuple(pose.point(p) for p in pm)))
    fams.append(ListFamily('polygons', sc, chunk=1500))
    # planes
    sc = []
    for pose in poses:
        for p in A.B0:
            sc.append(('plane', 'zero-normal', pose.point(p)))
        for tri in collinear_tuples(A.B1, 3):
            for pm in permutations(tri):
                sc.append(('plane', 'collinear-points', tuple(pose.point(p) for p in pm)))
        # exactly collinear A, A+d, A+k d for oblique d and ratios other than 2
        for d in (A.D2 if tier != 'quick' else A.D2[::3]):
            for k in (3, 5, -1, -2, F(1, 2), F(5, 2)):
                a0 = (1, -2, F(1, 2))
                tri = (a0, X.add(a0, d), X.add(a0, X.scal(k, d)))
                sc.append(('plane', 'collinear-points', tuple(pose.point(p) for p in tri)))
                sc.append(('polygon', 'collinear', tuple(pose.point(p) for p in tri)))
                sc.append(('polygon', 'collinear', tuple(pose.point(p) for p in (tri[2], tri[0], tri[1]))))
        for p in A.B0[:6]:
            sc.append(('plane', 'collinear-points', (pose.point(p),) * 3))
            sc.append(('plane', 'collinear-points', (pose.point(p), pose.point(p), pose.point(A.B0[7]))))
        for v in A.D1:
            for k in (1, -1, 2, F(-1, 2)):
                sc.append(('plane', 'parallel-vectors', pose.point((1, 0, 2)), pose.vec(v), pose.vec(X.scal(k, v))))
            sc.append(('plane', 'parallel-vectors', pose.point((1, 0, 2)), pose.vec(v), (0, 0, 0)))
    for d in (-2, -1, 0, 1, 2, 0.5):
        sc.append(('plane', 'gf-zero', d))
    for ctor in ('Plane', 'Line', 'Segment', 'HalfLine', 'Plane-PVV', 'Parallelogram', 'Parallelepiped'):
        for how in ('setitem', 'line-move'):
            for d in A.D1[::2]:
                sc.append(('zeroed-vector', ctor, how, poses[-1].point((1, 0, 2)), poses[-1].vec(d)))
    fams.append(ListFamily('planes', sc))
    # parallelogram / parallelepiped
    sc = []
    for pose in poses:
        b = pose.point((1, -2, F(1, 2)))
        for v in A.D1:
            sc.append(('parallelogram', 'zero-vector', b, pose.vec(v), (0, 0, 0)))
            sc.append(('parallelogram', 'zero-vector', b, (0, 0, 0), pose.vec(v)))
            for k in (1, -1, 2, F(-1, 2)):
                sc.append(('parallelogram', 'parallel', b, pose.vec(v), pose.vec(X.scal(k, v))))
        for v1 in A.D1:
            for v2 in A.D1:
                if X.is_zero(X.cross(v1, v2)):
                    continue
                sc.append(('parallelepiped', 'zero-vector', b, pose.vec(v1), pose.vec(v2), (0, 0, 0)))
                for (i, j) in ((1, 1), (1, -1), (2, 1), (1, 0), (0, -2)):
                    v3 = X.add(X.scal(i, v1), X.scal(j, v2))
                    for arr in ((v1, v2, v3), (v1, v3, v2), (v3, v1, v2)):
                        sc.append(('parallelepiped', 'coplanar' if (i and j) else 'parallel', b) + tuple(pose.vec(x) for x in arr))
    fams.append(ListFamily('parallel-builders', list(dict.fromkeys(sc)), chunk=200))
    # pyramids
    sc = []
    for pose in poses:
        for name in ('triangle', 'square', 'pentagon'):
            cyc = A.POLYGONS[name]
            for ap in product((-1, 0, 1, 3), (-2, 0, 1, 2), (0,)):
                sc.append(('pyramid', tuple(pose.point(p) for p in cyc), pose.point(ap)))
                sc.append(('pyramid', tuple(pose.point(p) for p in cyc), pose.point(X.add(ap, (0, 0, F(1, 10 ** 12))))))
                if ap[0] == ap[1]:
                    sc.append(('pyramid-moved', tuple(pose.point(p) for p in cyc), pose.point(ap), pose.vec((1, 0, 2)), pose.vec((0, -1, 1))))
    fams.append(ListFamily('pyramids', sc))
    # face sets
    sc = []
    for pose in poses:
        for name in (('tetrahedron', 'box', 'pyramid', 'prism') if tier == 'quick' else list(A.POLYHEDRA)):
            K = pose(A.polyhedron(name))
            faces = [tuple(cyc) for n, cyc in X.facets_of(K)]
            c = X.interior_point(K)
            for i in range(len(faces)):
                sc.append(('faces', 'face-removed', tuple(faces[:i] + faces[i + 1:])))
                sc.append(('faces', 'face-duplicated', tuple(faces[:i + 1] + faces[i:])))
                fc = tuple(sum(F(v[k]) for v in faces[i]) / len(faces[i]) for k in range(3))
                w = X.sub(fc, c)
                for kk in (F(1, 2), F(-1, 4)):
                    shifted = tuple(X.add(v, X.scal(kk, w)) for v in faces[i])
                    sc.append(('faces', 'face-shifted', tuple(faces[:i] + [shifted] + faces[i + 1:])))
            for i in range(len(faces)):
                for j in range(len(faces)):
                    if i != j:
                        sc.append(('faces', 'face-replaced-by-copy-of-another', tuple(faces[:i] + [faces[j]] + faces[i + 1:])))
            sc.append(('faces', 'single-face', (faces[0],)))
            sc.append(('faces', 'two-faces', (faces[0], faces[1])))
    fams.append(ListFamily('face-sets', sc, chunk=30))
    # circle n < 3
    sc = [('circle', b, n, d) for b in ('Circle', 'Cylinder', 'Cone') for n in (-1, 0, 1, 2) for d in A.D1]
    fams.append(ListFamily('circle-n', sc))
    # point lists
    sc = [('pointlist', 'too-short', ())]
    for pose in poses:
        for p in A.B0:
            sc.append(('pointlist', 'too-short', (pose.point(p),)))
        pts = A.B0[:10]
        for tri in combinations(pts, 3):
            if not X.is_zero(X.cross(X.sub(tri[1], tri[0]), X.sub(tri[2], tri[0]))):
                for pm in permutations(tri):
                    sc.append(('pointlist', 'non-collinear', tuple(pose.point(p) for p in pm)))
    fams.append(ListFamily('pointlist', sc))
    # move with a non-Vector
    sc = [('move', t, a) for t in X.ALL7 for a in ('int', 'tuple', 'None', 'Point', 'list', 'str')]
    fams.append(ListFamily('move', sc, chunk=6))
    # unsupported operand types
    sc = []
    types8 = list(X.ALL7) + ['Vector']
    # foreign operands, including falsy ones (0, 0.0, '', (), [], {}, False): a "not a" / "a and b" style guard must not swallow them
    foreign = ['int', 'str', 'None', 'zero', 'zero-float', 'empty-str', 'empty-tuple', 'empty-list', 'empty-dict', 'False', 'tuple3']
    for op in ('intersection', 'distance', 'angle', 'parallel', 'orthogonal'):
        for ta in types8 + foreign:
            for tb in types8 + foreign:
                if (ta, tb) in SUPPORTED[op]:
                    continue
                if op == 'intersection' and 'None' in (ta, tb):
                    continue  # documented: None absorbs
                sc.append(('operands', op, ta, tb, 'fn'))
                if ta in X.ALL7 and ta != 'Point':
                    sc.append(('operands', op, ta, tb, 'method'))
    for t in X.ALL7 + ('Vector',) + tuple(foreign):
        if t != 'ConvexPolyhedron':
            sc.append(('volume', t))
    fams.append(ListFamily('unsupported-operands', sc, chunk=60))
    return fams


def run(tier, seed):
    A.validate_catalogue()
    fams = families(tier)
    res = core.run_families('C15', fams, seed)
    res.rule = ('every instance of every invalid-input class listed in the property over lattice positions x poses (zero-length primitives incl. 1e-12 '
                'near-duplicates, polygons with <3 distinct / all-collinear / non-coplanar vertices in every order, degenerate planes, dependent edge '
                'vectors, apex in base plane, open or inconsistent face sets, n<3, bad point lists, move(non-Vector) on all 7 types, all unsupported '
                'operand type pairs); all distinct and non-trivial.  points_in_a_line is a predicate and is not required to raise (DESIGN.md §5).')
    res.alphabets = {f.name: f.total for f in fams}
    return res


def replay(family, scene):
    return eval_scene(family, core.dec(scene))[1]
