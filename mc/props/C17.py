"""C17 — Plane and Line forms round-trip to the same object.

E1: all lattice planes / coefficient tuples / point triples / point pairs of the stated
alphabets; every constructor form and read-back form compared with the exact plane / line."""
import math
from fractions import Fraction as F
from itertools import product, permutations, combinations

from Geometry3D import Plane, Line, Point, Vector

from .. import core, lib, exact as X, alphabet as A
from ..core import Viol, Family

LEVEL = 'exploration'
TECHNIQUE = 'bounded-exhaustive enumeration of all lattice planes/lines and coefficient tuples on the real code vs exact rational plane/line'

N2 = [v for v in product(range(-2, 3), repeat=3) if v != (0, 0, 0)]
N2.sort(key=lambda v: (sum(1 for c in v if c == 0) * -1, max(abs(c) for c in v), v))
CUBE5 = list(product(range(-2, 3), repeat=3))
CUBE3 = list(product(range(0, 3), repeat=3))
DS = (-2, -1, 0, 1, 2, F(1, 2))
N3 = [v for v in product(range(-3, 4), repeat=3) if v != (0, 0, 0)]
DS3 = (-3, -2, -1, F(-1, 2), 0, F(1, 4), F(1, 2), 1, F(3, 2), 2, 3, 7)


def zero_pattern(n):
    return ''.join('0' if c == 0 else ('+' if c > 0 else '-') for c in n)


class Ctx:
    def __init__(self, kind, cell, scene):
        self.kind, self.cell, self.scene, self.viols, self.sc = kind, cell, scene, [], None

    def bad(self, step, sym, exp, got, msg=''):
        if self.sc is None:
            self.sc = core.enc(self.scene)
        self.viols.append(Viol('C17|%s|%s|%s|%s' % (self.kind, step, self.cell, sym), self.sc, exp, lib.describe(got),
                               '%s: %s expected %s got %s %s' % (self.kind, step, exp, lib.describe(got), msg)))

    def same_plane(self, step, r, e, ref=None):
        """r library value; e exact plane."""
        ok, why = lib.matches(r, e)
        if not ok:
            self.bad(step, why, core.enc(e), r)
            return False
        if ref is not None:
            q = lib.call(lambda: (r == ref) and (ref == r))
            if q is not True:
                self.bad(step, 'not-equal-by-library-eq' if not isinstance(q, lib.Raised) else 'eq-raises:' + q.cls, True, q)
        return True


def check_plane_roundtrips(c, P, e):
    """P library plane denoting exact plane e."""
    gf = lib.call(P.general_form)
    if isinstance(gf, lib.Raised):
        c.bad('general_form', 'raises:' + gf.cls, 'tuple', gf)
    else:
        r = lib.call(lambda: Plane(*gf))
        c.same_plane('Plane(*general_form)', r, e, P)
    pn = lib.call(P.point_normal)
    if isinstance(pn, lib.Raised):
        c.bad('point_normal', 'raises:' + pn.cls, 'tuple', pn)
    else:
        r = lib.call(lambda: Plane(Point(pn[0]), pn[1]))
        c.same_plane('Plane(point_normal)', r, e, P)
    pm = lib.call(P.parametric)
    if isinstance(pm, lib.Raised):
        c.bad('parametric', 'raises:' + pm.cls, 'tuple', pm)
    else:
        try:
            u, v, w = pm
            vv, ww = lib._c(v), lib._c(w)
            n = lib._c(e[2])
            lv, lw, ln = math.sqrt(X.n2(vv)), math.sqrt(X.n2(ww)), math.sqrt(X.n2(n))
            good = (lv > 1e-9 and lw > 1e-9 and math.isfinite(lv) and math.isfinite(lw))
            if good:
                sin = math.sqrt(X.n2(X.cross(vv, ww))) / (lv * lw)
                if sin < 1e-6:
                    c.bad('parametric', 'dependent-vectors', 'independent v, w', pm)
                if abs(X.dot(vv, n)) > 1e-9 * lv * ln or abs(X.dot(ww, n)) > 1e-9 * lw * ln:
                    c.bad('parametric', 'not-parallel-to-plane', 'v, w orthogonal to normal', pm)
            else:
                c.bad('parametric', 'zero-vector', 'independent v, w', pm)
        except Exception as ex:  # malformed tuple
            c.bad('parametric', 'malformed:' + type(ex).__name__, '(u, v, w)', pm)
        else:
            r = lib.call(lambda: Plane(Point(pm[0]), pm[1], pm[2]))
            c.same_plane('Plane(parametric)', r, e, P)
    # P has been used by now (membership, ==, general_form): its negation must still be the same point set
    lib.call(lambda: P.p in P)
    ng = lib.call(lambda: -P)
    if c.same_plane('neg', ng, e, None):
        a, b = lib._c(ng.n), lib._c(P.n)
        if not lib._close(a, X.neg(b), 1e-9):
            c.bad('neg', 'normal-not-opposite', lib.describe(X.neg(b)), ng)
        q = lib.call(lambda: (P.p in ng) and (ng.p in P) and (ng == P) and (P == ng))
        if q is not True:
            c.bad('neg', 'negation-loses-the-points-of-the-plane', True, q)
        gf = lib.call(ng.general_form)
        if isinstance(gf, lib.Raised):
            c.bad('neg.general_form', 'raises:' + gf.cls, 'tuple', gf)
        else:
            c.same_plane('Plane(*(-P).general_form())', lib.call(lambda: Plane(*gf)), e, None)


def eval_scene(fam, scene):
    kind = scene[0]
    if kind == 'pn':
        e = scene[1]
        c = Ctx(kind, zero_pattern(X.clear(e[2])), scene)
        if not X.coords_hash_ok(e):
            return 'skip:hash-boundary', []
        P = lib.call(lib.to_lib, e)
        if c.same_plane('Plane(p,n)', P, e):
            check_plane_roundtrips(c, P, e)
        return 'pn|' + c.cell, c.viols
    if kind == 'gf':
        a, b, cc, d = scene[1:]
        n = (a, b, cc)
        c = Ctx(kind, zero_pattern(n) + ('|d0' if d == 0 else ''), scene)
        nn = X.n2(n)
        e = X.Pl(tuple(F(d) * F(x, nn) for x in n), n)
        P = lib.call(lambda: Plane(float(a), float(b), float(cc), float(d)))
        if c.same_plane('Plane(a,b,c,d)', P, e):
            for x in CUBE5:
                want = (X.dot(n, x) == d)
                got = lib.call(lambda: lib.P(x) in P)
                if got is not want:
                    c.bad('lattice-membership', 'wrong-membership', want, got, 'point %r' % (x,))
                    break
            check_plane_roundtrips(c, P, e)
            Pi = lib.call(lambda: Plane(a, b, cc, d) if all(isinstance(t, int) for t in (a, b, cc, d)) else Plane(a, b, cc, float(d)))
            c.same_plane('Plane(a,b,c,d)-int-args', Pi, e, P)
        return 'gf|' + c.cell, c.viols
    if kind == '3pt':
        pa, pb, pc = scene[1:]
        n = X.cross(X.sub(pb, pa), X.sub(pc, pa))
        e = X.Pl(pa, n)
        c = Ctx(kind, zero_pattern(X.clear(n)), scene)
        shared = lib.use_point_elsewhere(lib.P(pa))
        Ps = lib.call(lambda: Plane(shared, lib.P(pb), lib.P(pc)))
        c.same_plane('Plane(shared A,B,C)', Ps, e)
        P = lib.call(lambda: Plane(lib.P(pa), lib.P(pb), lib.P(pc)))
        if c.same_plane('Plane(A,B,C)', P, e):
            for x in (pa, pb, pc):
                got = lib.call(lambda: lib.P(x) in P)
                if got is not True:
                    c.bad('contains-defining-point', 'wrong-membership', True, got)
            check_plane_roundtrips(c, P, e)
        return '3pt|' + c.cell, c.viols
    if kind == 'pvw':
        p, v, w = scene[1:]
        n = X.cross(v, w)
        e = X.Pl(p, n)
        c = Ctx(kind, zero_pattern(X.clear(n)), scene)
        P = lib.call(lambda: Plane(lib.P(p), lib.V(v), lib.V(w)))
        if c.same_plane('Plane(p,v,w)', P, e):
            check_plane_roundtrips(c, P, e)
        return 'pvw|' + c.cell, c.viols
    if kind == 'line':
        p, q = scene[1:]
        d = X.sub(q, p)
        e = X.Ln(p, d)
        c = Ctx(kind, zero_pattern(X.clear(d)), scene)
        shared = lib.use_point_elsewhere(lib.P(p))      # the same Point object serves all later constructions
        forms = [('Line(P,Q)', lambda: Line(lib.P(p), lib.P(q))),
                 ('Line(P,v)', lambda: Line(lib.P(p), lib.V(d))),
                 ('Line(pv,v)', lambda: Line(lib.P(p).pv(), lib.V(d))),
                 ('Line(shared P,Q)', lambda: Line(shared, lib.P(q))),
                 ('Line(shared P,v)', lambda: Line(shared, lib.V(d))),
                 ('Line(shared P.pv(),v)', lambda: Line(shared.pv(), lib.V(d)))]
        objs = []
        for name, th in forms:
            r = lib.call(th)
            ok, why = lib.matches(r, e)
            if not ok:
                c.bad(name, why, core.enc(e), r)
            else:
                objs.append((name, r))
        for i in range(len(objs)):
            for j in range(len(objs)):
                q_ = lib.call(lambda: objs[i][1] == objs[j][1])
                if q_ is not True:
                    c.bad('%s==%s' % (objs[i][0], objs[j][0]), 'not-equal', True, q_)
        for name, r in objs:
            pm = lib.call(r.parametric)
            if isinstance(pm, lib.Raised):
                c.bad(name + '.parametric', 'raises:' + pm.cls, '(sv, dv)', pm)
                continue
            r2 = lib.call(lambda: Line(pm[0], pm[1]))
            ok, why = lib.matches(r2, e)
            if not ok:
                c.bad(name + '.parametric', why, core.enc(e), r2)
        return 'line|' + c.cell, c.viols
    raise core.HarnessError('unknown scene kind %r' % (kind,))


class ListFamily(Family):
    def __init__(self, name, scenes, chunk=200):
        self.name = name
        self._scenes = scenes
        self._shards = [(i, min(i + chunk, len(scenes))) for i in range(0, len(scenes), chunk)]
        self.total = len(scenes)

    def shards(self):
        return self._shards

    def scenes(self, shard):
        return iter(self._scenes[shard[0]:shard[1]])

    def eval(self, scene):
        return eval_scene(self.name, scene)

    def nontrivial(self, cell):
        return '0' in cell.split('|')[1] or '-' in cell.split('|')[1][:1]


def families(tier):
    poses = A.poses(tier)
    pts = A.B0 if tier == 'quick' else A.B1
    fams = []
    for pose in poses:
        sc = [('pn', pose(X.Pl(p, n))) for n in (N2 if tier == 'quick' else N3) for p in (A.B0[:6] if tier == 'quick' else A.B0)]
        fams.append(ListFamily('pn/' + pose.name, sc))
        sc = [('line', pose.point(p), pose.point(q)) for p in pts for q in pts if p != q]
        fams.append(ListFamily('line/' + pose.name, sc))
    if tier == 'quick':
        fams.append(ListFamily('gf', [('gf',) + n + (d,) for n in N2 for d in DS], chunk=50))
    else:
        fams.append(ListFamily('gf', [('gf',) + n + (d,) for n in N3 for d in DS3], chunk=50))
    tri = [t for t in combinations(CUBE3, 3) if not X.is_zero(X.cross(X.sub(t[1], t[0]), X.sub(t[2], t[0])))]
    if tier == 'quick':
        sc = [('3pt',) + t for t in tri]
    else:
        sc = [('3pt',) + tuple(pp) for t in tri for pp in permutations(t)]
    fams.append(ListFamily('3pt', sc))
    sc = [('pvw', p, v, w) for p in ((0, 0, 0), (1, -2, F(1, 2))) for v in A.D1 for w in A.D1 if not X.is_zero(X.cross(v, w))]
    if tier != 'quick':
        sc += [('pvw', (1, -2, F(1, 2)), X.scal(k, v), w) for k in (2, F(1, 2)) for v in A.D1 for w in A.D1 if not X.is_zero(X.cross(v, w))]
    fams.append(ListFamily('pvw', sc))
    return fams


def run(tier, seed):
    fams = families(tier)
    res = core.run_families('C17', fams, seed)
    res.rule = ('every plane Plane(p,n) with n in {-2..2}^3\\0 and lattice p (x poses), every (a,b,c,d) with (a,b,c) in {-2..2}^3\\0 and d in '
                '{-2,-1,0,1,2,1/2}, every non-collinear point triple of {0,1,2}^3, every independent (v,w) of D1, every ordered lattice point pair as '
                'Line; non-trivial = normal/direction with a zero or negative leading component')
    if tier != 'quick':
        res.rule = res.rule.replace('{-2..2}^3', '{-3..3}^3').replace('{-2,-1,0,1,2,1/2}', '{-3,-2,-1,-1/2,0,1/4,1/2,1,3/2,2,3,7}')
    res.alphabets = {f.name: f.total for f in fams}
    return res


def replay(family, scene):
    return eval_scene(family, core.dec(scene))[1]
