"""C11 — angle, parallel and orthogonal agree with exact direction geometry.

E1: all ordered direction pairs of a lattice direction set x the five type combinations."""
import math
from fractions import Fraction as F

from Geometry3D import angle, parallel, orthogonal, Line, Plane, Vector, Point

from .. import core, lib, exact as X, alphabet as A
from ..core import Viol, Family

LEVEL = 'exploration'
TECHNIQUE = 'bounded-exhaustive enumeration of all lattice direction pairs x type combinations on the real code vs exact rational cos^2'

COMBOS = ('Line,Line', 'Line,Plane', 'Plane,Line', 'Plane,Plane', 'Vector,Vector')
PA = (1, -2, F(1, 2))
PB = (-1, 3, 2)


def mk(kind, p, d):
    return lib.construct(kind, lambda: _mk(kind, p, d))


_BUF = [0.0, 0.0, 0.0]     # one caller-owned list, refilled for every Vector built through the list form


def _vec_from_list(d):
    _BUF[:] = [lib._num(c) for c in d]
    return Vector(_BUF)


def _mk(kind, p, d):
    sel2 = (abs(int(d[0])) + abs(int(d[1])) + abs(int(d[2]))) % 2
    if kind == 'Line':
        if sel2:
            # point + direction form, the direction built from the caller's (later refilled) list
            return Line(lib.P(p), _vec_from_list(d))
        # two-point form from a Point object that earlier served other (moved) lines
        pt = lib.use_point_elsewhere(lib.P(p))
        return Line(pt, lib.P(X.add(p, d)))
    if kind == 'Plane':
        # alternate between point-normal, general form and point + two spanning vectors (decided by the scene, not at random)
        sel = (abs(int(d[0])) + 2 * abs(int(d[1])) + abs(int(d[2]))) % 3
        if sel == 1:
            return Plane(float(d[0]), float(d[1]), float(d[2]), float(X.dot(d, p)))
        if sel == 2:
            e = next(e for e in ((1, 0, 0), (0, 1, 0), (0, 0, 1)) if not X.is_zero(X.cross(d, e)))
            u = X.cross(d, e)
            w = X.cross(d, u)
            return Plane(lib.P(p), lib.V(X.scal(2, u)), lib.V(X.add(w, u)))
        return Plane(lib.P(p), lib.V(d))
    return _vec_from_list(d) if sel2 else lib.V(d)


def eval_scene(fam, combo, u, v):
    ka, kb = combo.split(',')
    c = X.cross(u, v)
    duv = X.dot(u, v)
    par, orth = X.is_zero(c), duv == 0
    nu, nv = X.n2(u), X.n2(v)
    g = X.Guard()
    g.obs(X.n2(c), nu * nv)
    g.obs(duv * duv, nu * nv)
    if not g.ok():
        return 'skip:margin', []
    cos2 = F(duv * duv, nu * nv)
    theta = math.acos(min(1.0, math.sqrt(cos2)))
    mixed = (ka != kb)
    if mixed:
        exp_angle, exp_par, exp_orth = math.pi / 2 - theta, orth, par
    else:
        exp_angle, exp_par, exp_orth = theta, par, orth
    rel = 'parallel' if par else ('orthogonal' if orth else 'generic')
    if par:
        rel += '-same' if duv > 0 else '-anti'
        rel += '-equal-length' if nu == nv else '-scaled'
    cell = '%s|%s' % (combo, rel)
    viols = []
    sc = None

    def bad(op, form, sym, exp, got):
        nonlocal sc
        if sc is None:
            sc = core.enc((combo, u, v))
        viols.append(Viol('C11|%s|%s|%s|%s|%s' % (op, form, combo, rel, sym), sc, exp, lib.describe(got),
                          '%s(%s) [%s] expected %r got %r' % (op, combo, form, exp, lib.describe(got))))

    a, b = mk(ka, PA, u), mk(kb, PB, v)
    _BUF[:] = [7.0, -5.0, 3.0]     # the caller goes on using its list
    for op, fn, exp in (('angle', angle, exp_angle), ('parallel', parallel, exp_par), ('orthogonal', orthogonal, exp_orth)):
        forms = [('fn', lambda: fn(a, b)), ('fn-swapped', lambda: fn(b, a))]
        if ka != 'Vector':
            forms.append(('method', lambda: getattr(a, op)(b)))
            forms.append(('method-swapped', lambda: getattr(b, op)(a)))
        for form, thunk in forms:
            r = lib.call(thunk)
            if isinstance(r, lib.Raised):
                bad(op, form, 'raises:' + r.cls, exp, r)
            elif op == 'angle':
                if isinstance(r, bool) or not isinstance(r, (int, float)) or not math.isfinite(r):
                    bad(op, form, 'not-a-number', exp, r)
                elif not (-1e-12 <= r <= math.pi / 2 + 1e-12):
                    bad(op, form, 'out-of-range', exp, r)
                elif abs(r - exp) > 1e-7:
                    bad(op, form, 'wrong-value', exp, r)
            else:
                if r is not exp and not (isinstance(r, bool) and r == exp):
                    bad(op, form, 'wrong-bool', exp, r)
    return cell, viols


class Dirs(Family):
    def __init__(self, name, pairs_fn, us, chunk=8):
        self.name = name
        self.us = us
        self.pairs_fn = pairs_fn
        self._shards = [(combo, i, min(i + chunk, len(us))) for combo in COMBOS for i in range(0, len(us), chunk)]

    def shards(self):
        return self._shards

    def scenes(self, shard):
        combo, i0, i1 = shard
        for u in self.us[i0:i1]:
            for v in self.pairs_fn(u):
                yield (combo, u, v)

    def eval(self, s):
        return eval_scene(self.name, *s)

    def nontrivial(self, cell):
        return 'generic' not in cell


class Reuse(Family):
    """Vector/Vector scenes evaluated on two *persistent* Vector objects whose coordinates are
    re-assigned in place (``v[i] = c``) between scenes, so every query runs after earlier
    queries and an in-place mutation (a stale cached length / direction shows up here)."""

    def __init__(self, us, vs_fn, chunk=16):
        self.name = 'reuse-in-place'
        self.us, self.vs_fn = us, vs_fn
        self._shards = [(i, min(i + chunk, len(us))) for i in range(0, len(us), chunk)]
        self._a = self._b = None

    def shards(self):
        return self._shards

    def scenes(self, shard):
        self._a = lib.V((1, 0, 0))
        self._b = lib.V((0, 1, 0))
        for u in self.us[shard[0]:shard[1]]:
            for v in self.vs_fn(u):
                yield ('Vector,Vector', u, v)

    def eval(self, s):
        return eval_reuse(self, s[1], s[2])

    def nontrivial(self, cell):
        return 'generic' not in cell


def eval_reuse(fam, u, v):
    if fam._a is None:
        fam._a, fam._b = lib.V((1, 0, 0)), lib.V((0, 1, 0))
        for fn in (angle, parallel, orthogonal):
            lib.call(fn, fam._a, fam._b)
    a, b = fam._a, fam._b
    for i in range(3):
        a[i] = float(u[i])
        b[i] = float(v[i])
    c = X.cross(u, v)
    duv = X.dot(u, v)
    par, orth = X.is_zero(c), duv == 0
    cos2 = F(duv * duv, X.n2(u) * X.n2(v))
    theta = math.acos(min(1.0, math.sqrt(cos2)))
    rel = 'parallel' if par else ('orthogonal' if orth else 'generic')
    viols = []
    for op, fn, exp in (('angle', angle, theta), ('parallel', parallel, par), ('orthogonal', orthogonal, orth)):
        for form, th in (('fn', lambda: fn(a, b)), ('fn-swapped', lambda: fn(b, a))):
            r = lib.call(th)
            bad = None
            if isinstance(r, lib.Raised):
                bad = 'raises:' + r.cls
            elif op == 'angle':
                if isinstance(r, bool) or not isinstance(r, (int, float)) or abs(r - exp) > 1e-7:
                    bad = 'wrong-value'
            elif r is not exp and not (isinstance(r, bool) and r == exp):
                bad = 'wrong-bool'
            if bad:
                viols.append(Viol('C11|%s|%s|Vector,Vector|%s|%s-after-in-place-reassignment' % (op, form, rel, bad), core.enc(('reuse', u, v)), exp,
                                  lib.describe(r), '%s on a Vector whose coordinates were re-assigned in place after earlier queries' % op))
    return 'Vector,Vector|reuse|' + rel, viols


def families(tier):
    if tier == 'quick':
        special = lambda u: [v for v in A.D3ALL if X.is_zero(X.cross(u, v)) or X.dot(u, v) == 0]
        return [Dirs('D2xD2', lambda u: A.D2, A.D2),
                Dirs('D3-special', special, A.D3ALL, chunk=24),
                Reuse(A.D2, lambda u: A.D2)]
    return [Dirs('D3xD3', lambda u: A.D3ALL, A.D3ALL, chunk=6), Reuse(A.D3ALL, lambda u: A.D3ALL, chunk=8)]


def run(tier, seed):
    fams = families(tier)
    res = core.run_families('C11', fams, seed)
    res.rule = ('every ordered pair of direction vectors of the family x 5 type combinations; each scene calls angle/parallel/orthogonal in '
                'function, swapped, method and swapped-method form; non-trivial = exactly parallel / anti-parallel / orthogonal pairs')
    res.alphabets = {'D2': len(A.D2), 'D3ALL': len(A.D3ALL), 'combos': list(COMBOS)}
    return res


def replay(family, scene):
    sc = core.dec(scene)
    if sc[0] == 'reuse':
        # a single scene cannot show a stale cache: replay it after a priming scene
        fam = Reuse([(1, 0, 0)], lambda u: [(0, 1, 0)])
        eval_reuse(fam, (2, 0, 0), (0, 3, 0))
        return eval_reuse(fam, sc[1], sc[2])[1]
    combo, u, v = sc
    return eval_scene(family, combo, u, v)[1]
