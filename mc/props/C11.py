"""C11 — angle, parallel and orthogonal agree with exact direction geometry.

E1: all ordered direction pairs of a lattice direction set x the five type combinations."""
import math
from fractions import Fraction as F

from Geometry3D import angle, parallel, orthogonal, Line, Plane, Vector, Point

from .. import core, lib, exact as X, alphabet as A
from ..core import Viol, Family

LEVEL = 'exploration'
TECHNIQUE = 'bounded-exhaustive enumeration of all lattice direction pairs x type combinations on the real code vs exact rational cos^2'

COMBOS = ('Line,Line', 'Line,Plane', 'Plane,Line', 'Plane,Plane', 'Vector,Vector')
PA = (1, -2, F(1, 2))
PB = (-1, 3, 2)


def mk(kind, p, d):
    return lib.construct(kind, lambda: _mk(kind, p, d))


def _mk(kind, p, d):
    if kind == 'Line':
        return Line(lib.P(p), lib.V(d))
    if kind == 'Plane':
        return Plane(lib.P(p), lib.V(d))
    return lib.V(d)


def eval_scene(fam, combo, u, v):
    ka, kb = combo.split(',')
    c = X.cross(u, v)
    duv = X.dot(u, v)
    par, orth = X.is_zero(c), duv == 0
    nu, nv = X.n2(u), X.n2(v)
    g = X.Guard()
    g.obs(X.n2(c), nu * nv)
    g.obs(duv * duv, nu * nv)
    if not g.ok():
        return 'skip:margin', []
    cos2 = F(duv * duv, nu * nv)
    theta = math.acos(min(1.0, math.sqrt(cos2)))
    mixed = (ka != kb)
    if mixed:
        exp_angle, exp_par, exp_orth = math.pi / 2 - theta, orth, par
    else:
        exp_angle, exp_par, exp_orth = theta, par, orth
    rel = 'parallel' if par else ('orthogonal' if orth else 'generic')
    if par:
        rel += '-same' if duv > 0 else '-anti'
        rel += '-equal-length' if nu == nv else '-scaled'
    cell = '%s|%s' % (combo, rel)
    viols = []
    sc = None

    def bad(op, form, sym, exp, got):
        nonlocal sc
        if sc is None:
            sc = core.enc((combo, u, v))
        viols.append(Viol('C11|%s|%s|%s|%s|%s' % (op, form, combo, rel, sym), sc, exp, lib.describe(got),
                          '%s(%s) [%s] expected %r got %r' % (op, combo, form, exp, lib.describe(got))))

    a, b = mk(ka, PA, u), mk(kb, PB, v)
    for op, fn, exp in (('angle', angle, exp_angle), ('parallel', parallel, exp_par), ('orthogonal', orthogonal, exp_orth)):
        forms = [('fn', lambda: fn(a, b)), ('fn-swapped', lambda: fn(b, a))]
        if ka != 'Vector':
            forms.append(('method', lambda: getattr(a, op)(b)))
            forms.append(('method-swapped', lambda: getattr(b, op)(a)))
        for form, thunk in forms:
            r = lib.call(thunk)
            if isinstance(r, lib.Raised):
                bad(op, form, 'raises:' + r.cls, exp, r)
            elif op == 'angle':
                if isinstance(r, bool) or not isinstance(r, (int, float)) or not math.isfinite(r):
                    bad(op, form, 'not-a-number', exp, r)
                elif not (-1e-12 <= r <= math.pi / 2 + 1e-12):
                    bad(op, form, 'out-of-range', exp, r)
                elif abs(r - exp) > 1e-7:
                    bad(op, form, 'wrong-value', exp, r)
            else:
                if r is not exp and not (isinstance(r, bool) and r == exp):
                    bad(op, form, 'wrong-bool', exp, r)
    return cell, viols


class Dirs(Family):
    def __init__(self, name, pairs_fn, us, chunk=8):
        self.name = name
        self.us = us
        self.pairs_fn = pairs_fn
        self._shards = [(combo, i, min(i + chunk, len(us))) for combo in COMBOS for i in range(0, len(us), chunk)]

    def shards(self):
        return self._shards

    def scenes(self, shard):
        combo, i0, i1 = shard
        for u in self.us[i0:i1]:
            for v in self.pairs_fn(u):
                yield (combo, u, v)

    def eval(self, s):
        return eval_scene(self.name, *s)

    def nontrivial(self, cell):
        return 'generic' not in cell


def families(tier):
    if tier == 'quick':
        special = lambda u: [v for v in A.D3ALL if X.is_zero(X.cross(u, v)) or X.dot(u, v) == 0]
        return [Dirs('D2xD2', lambda u: A.D2, A.D2),
                Dirs('D3-special', special, A.D3ALL, chunk=24)]
    return [Dirs('D3xD3', lambda u: A.D3ALL, A.D3ALL, chunk=6)]


def run(tier, seed):
    fams = families(tier)
    res = core.run_families('C11', fams, seed)
    res.rule = ('every ordered pair of direction vectors of the family x 5 type combinations; each scene calls angle/parallel/orthogonal in '
                'function, swapped, method and swapped-method form; non-trivial = exactly parallel / anti-parallel / orthogonal pairs')
    res.alphabets = {'D2': len(A.D2), 'D3ALL': len(A.D3ALL), 'combos': list(COMBOS)}
    return res


def replay(family, scene):
    combo, u, v = core.dec(scene)
    return eval_scene(family, combo, u, v)[1]
