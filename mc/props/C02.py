"""C02 — flat primitive x convex polygon / polyhedron intersection is exact.

E1: for every body of the catalogue x pose: every flat anchored at a feature point of the
body with a direction from D1 + edge directions + facet normals, every parameter window,
both argument orders; plus the exported helper functions on the same scenes."""
from fractions import Fraction as F
from itertools import permutations

from Geometry3D import (get_segment_convexpolyhedron_intersection_point_set as seg_ph_set,
                        get_segment_convexpolygon_intersection_point_set as seg_pg_set,
                        get_segment_from_point_list)

from .. import core, lib, exact as X, alphabet as A
from ..core import Viol, Family
from ..icheck import eval_inter, model_inter, safe_pose

EXTRA_HASHSEEDS = (1,)       # thorough tier re-runs the quick space under a second pinned hash seed
LEVEL = 'exploration'
TECHNIQUE = 'bounded-exhaustive enumeration of feature-anchored flats x catalogue bodies x poses on the real code vs exact clipping / vertex enumeration'


def base_features(o):
    """vertices, edge midpoints, face centroids (+ one skew face point), interior point."""
    out = [X.frv(v) for v in o[1]]
    for a, b in X.edges_of(o):
        out.append(A.mid(a, b))
    if o[0] == 'ConvexPolyhedron':
        for n, cyc in X.facets_of(o):
            a, b, c = cyc[0], cyc[1], cyc[2]
            out.append(tuple(F(2 * a[i] + b[i] + c[i], 4) for i in range(3)))
    out.append(X.interior_point(o))
    seen = []
    for p in out:
        if p not in seen:
            seen.append(p)
    return seen


def canon_dir(d):
    d = X.clear(d)
    first = next(c for c in d if c != 0)
    return d if first > 0 else X.neg(d)


def body_dirs(o):
    ds = list(A.D1U)
    for a, b in X.edges_of(o):
        ds.append(canon_dir(X.sub(b, a)))
    if o[0] == 'ConvexPolyhedron':
        for n, d, on in X.hull_facets(o[1]):
            ds.append(canon_dir(n))
    else:
        n, cyc = X.poly_cycle(o[1])
        ds.append(canon_dir(n))
        for a, b in X.edges_of(o):
            ds.append(canon_dir(X.cross(n, X.sub(b, a))))
    # lattice directions that cross lattice planes at a very small angle (sine 0.05 .. 0.09)
    ds += [canon_dir(d) for d in ((8, -7, 0), (0, 8, -7), (-7, 0, 8), (8, 7, 1), (1, 8, 7), (7, 1, -8))]
    out = []
    for d in ds:
        if d not in out:
            out.append(d)
    return out


def plane_normals(o):
    ns = body_dirs(o)
    extra = []
    for a, b in X.edges_of(o):
        for l in ((1, 0, 0), (0, 1, 0), (0, 0, 1), (1, 1, 1)):
            c = X.cross(X.sub(b, a), l)
            if not X.is_zero(c):
                extra.append(canon_dir(c))
    for d in extra:
        if d not in ns:
            ns.append(d)
    return ns


def flats_for(o, params):
    """list of exact flats in the body frame."""
    feats = base_features(o)
    dirs = body_dirs(o)
    out = []
    seen = set()

    def push(f):
        if f not in seen:
            seen.add(f)
            out.append(f)

    for f in feats:
        for u in dirs:
            push(X.Ln(f, u))
            for a in params:
                p = X.add(f, X.scal(a, u))
                push(X.Hl(p, u))
                push(X.Hl(p, X.neg(u)))
            for a in params:
                for b in params:
                    if a < b:
                        push(X.Sg(X.add(f, X.scal(a, u)), X.add(f, X.scal(b, u))))
        for n in plane_normals(o):
            push(X.Pl(f, n))
    for lab, p in A.feature_points(o):
        push(X.Pt(p))
    return out


class FlatBody(Family):
    scene_timeout = 120.0

    def __init__(self, bname, pose, params, chunk=150):
        self.body0 = A.body(bname)
        pose = safe_pose(pose, self.body0)
        self.name = 'FB/%s/%s' % (bname, pose.name)
        self.bname, self.pose = bname, pose
        self.flats0 = flats_for(self.body0, params)
        self.total = 2 * len(self.flats0)
        self._shards = [(i, min(i + chunk, len(self.flats0))) for i in range(0, len(self.flats0), chunk)]

    def shards(self):
        return self._shards

    def scenes(self, shard):
        K = self.pose(self.body0)
        for f0 in self.flats0[shard[0]:shard[1]]:
            f = self.pose(f0)
            yield (f, K)
            yield (K, f)

    def eval(self, scene):
        a, b = scene
        cell, viols = eval_inter('C02', self.name, a, b, forms=('fn',), measures=True, reuse_first=(a[0] in X.BODY))
        if cell.startswith('skip:'):
            return cell, viols
        f, K = (a, b) if b[0] in X.BODY else (b, a)
        if f[0] == 'Segment' and a is f:
            viols += eval_helper(self.name, f, K)
        return cell, viols

    def nontrivial(self, cell):
        return not cell.endswith('|None')


class MovedBody(FlatBody):
    """query, move the body in place, query again against the flat translated by the same vector
    (the answer must be the first answer translated)."""

    def __init__(self, bname, pose, params, step):
        FlatBody.__init__(self, bname, pose, params)
        self.name = 'moved/%s/%s' % (bname, pose.name)
        self.flats0 = self.flats0[::step]
        self.total = len(self.flats0)
        self._shards = [(i, min(i + 60, len(self.flats0))) for i in range(0, len(self.flats0), 60)]

    def scenes(self, shard):
        K = self.pose(self.body0)
        for f0 in self.flats0[shard[0]:shard[1]]:
            yield (self.pose(f0), K)

    def eval(self, scene):
        return eval_moved(self.name, scene[0], scene[1])


class Twins(Family):
    """two different bodies whose vertex tuples differ only by a coordinate -1 against -2 (CPython: hash(-1) == hash(-2), so
    their library hashes collide), queried alternately in one process: nothing remembered about one may answer for the
    other (w6_C02_3: per-polygon data memoised under hash(self))."""
    scene_timeout = 120.0
    PAIRS = {
        'tri-z0': (X.Pg(((-1, 0, 0), (2, 0, 0), (0, 3, 0))), X.Pg(((-2, 0, 0), (2, 0, 0), (0, 3, 0)))),
        'tri-yz': (X.Pg(((0, -1, -1), (0, 2, 2), (3, 0, 0))), X.Pg(((0, -2, -2), (0, 2, 2), (3, 0, 0)))),
        'quad-x': (X.Pg(((-1, 0, 0), (-1, 2, 0), (-1, 2, 2), (-1, 0, 2))), X.Pg(((-2, 0, 0), (-2, 2, 0), (-2, 2, 2), (-2, 0, 2)))),
        'tetra': (X.Ph(((-1, 0, 0), (2, 0, 0), (0, 3, 0), (0, 1, 2))), X.Ph(((-2, 0, 0), (2, 0, 0), (0, 3, 0), (0, 1, 2)))),
    }

    def __init__(self, pname, params, step=1):
        self.name = 'twins/' + pname
        self.K1, self.K2 = self.PAIRS[pname]
        fl = flats_for(self.K2, params)
        seen, self.flats = set(), []
        for f in fl + flats_for(self.K1, params):
            if f not in seen:
                seen.add(f)
                self.flats.append(f)
        self.flats = self.flats[::step]
        self.total = 2 * len(self.flats)
        # one shard per order: the whole alternating sequence runs in one worker process
        self._shards = [(0,), (1,)]

    def shards(self):
        return self._shards

    def scenes(self, shard):
        first, second = (self.K1, self.K2) if shard[0] == 0 else (self.K2, self.K1)
        for f in self.flats:
            yield (f, first)
            yield (f, second)

    def eval(self, scene):
        return eval_inter('C02', self.name, scene[0], scene[1], forms=('fn',), measures=True)

    def nontrivial(self, cell):
        return not cell.endswith('|None')


MOVE_V = ((1, 2, -1), (0, 0, 3))
ID3 = ((1, 0, 0), (0, 1, 0), (0, 0, 1))


def eval_moved(fam, f, K):
    from Geometry3D import intersection as inter
    e0, cell, skip = model_inter(f, K)
    if skip:
        return skip, []
    # operands built from caller-owned Points that serve other, moved, lines / segments / half-lines before and afterwards
    with lib.shared_points():
        lk = lib.to_lib(K)
        lf = lib.to_lib(f)
    r0 = lib.call(inter, lf, lk)
    ok0, why0 = lib.matches(r0, e0)
    if not ok0:
        return 'moved|' + cell, [Viol('C02|moved|%s,%s|%s-with-operands-built-from-shared-points' % (f[0], K[0], why0), core.enc((f, K)), core.enc(e0), lib.describe(r0),
                                      'operands built from Point objects that also served other (moved) lines, segments and half-lines')]
    # the caller moves what it got back; freshly built equal operands answer as before
    if hasattr(r0, 'move') and not isinstance(r0, lib.Raised) and f[0] != 'Plane':
        lib.call(r0.move, lib.V((-2, 1, 5)))
        got = lib.call(inter, lib.to_lib(f), lib.to_lib(K))
        ok0, why0 = lib.matches(got, e0)
        if not ok0:
            return 'moved|' + cell, [Viol('C02|moved|%s,%s|%s-on-fresh-operands-after-an-earlier-result-was-moved' % (f[0], K[0], why0), core.enc((f, K)), core.enc(e0),
                                          lib.describe(got), 'intersection(f, K); result moved by the caller; intersection of freshly built equal operands')]
        lk = lib.to_lib(K)      # (the pinned library may hand out parts of K itself as the result: go on with a fresh K)
    lib.call(lambda: lk.area())
    viols = []
    t = (0, 0, 0)
    for v in MOVE_V:
        r = lib.call(lk.move, lib.V(v))
        if isinstance(r, lib.Raised):
            return 'moved|' + cell, [Viol('C02|moved|move-raises:' + r.cls, core.enc((f, K)), 'moved body', repr(r), '')]
        t = X.add(t, v)
        ft, Kt = X.xform(f, ID3, 1, t), X.xform(K, ID3, 1, t)
        e, _, skip = model_inter(ft, Kt)
        if skip:
            continue
        for who, obj in (('receiver', lk), ('returned', r)):
            got = lib.call(inter, lib.to_lib(ft), obj)
            ok, why = lib.matches(got, e)
            if not ok:
                viols.append(Viol('C02|moved|%s,%s|%s|%s-after-in-place-move' % (f[0], K[0], who, why), core.enc((f, K)), core.enc(e), lib.describe(got),
                                  'intersection with the %s object after K.move(%r)' % (who, v)))
                return 'moved|%s,%s' % (f[0], K[0]), viols
    return 'moved|%s,%s' % (f[0], K[0]), viols


def expected_hit_set(s, K):
    """isolated boundary hits of segment s: s x face (polyhedron) and s x edge when a single point."""
    pts = set()
    if K[0] == 'ConvexPolyhedron':
        for n, cyc in X.facets_of(K):
            e, _ = X.inter(s, X.Pg(cyc))
            if e is not None and e[0] == 'Point':
                pts.add(X.frv(e[1]))
    for p, q in X.edges_of(K):
        e, _ = X.inter(s, X.Sg(p, q))
        if e is not None and e[0] == 'Point':
            pts.add(X.frv(e[1]))
    return pts


def eval_helper(fam, s, K):
    fn = seg_ph_set if K[0] == 'ConvexPolyhedron' else seg_pg_set
    exp = expected_hit_set(s, K)
    if not all(X.hash_boundary_ok(c) for p in exp for c in p):
        return []
    ls, lk = lib.to_lib(s), lib.to_lib(K)
    r = lib.call(fn, ls, lk)
    why = None
    if isinstance(r, lib.Raised):
        why = 'raises:' + r.cls
    elif not isinstance(r, (set, frozenset)):
        why = 'wrong-kind:' + lib.tname(r)
    else:
        try:
            ok = lib.match_points([lib._c(p) for p in r], sorted(exp))
        except Exception:
            ok = False
        if not ok:
            why = 'wrong-value'
    if why:
        return [Viol('C02|helper|%s|%s|%s' % (fn.__name__, K[0], why), core.enc((s, K)), core.enc(sorted(exp)), lib.describe(r),
                     '%s expected %d points' % (fn.__name__, len(exp)))]
    return []


class PointList(Family):
    """get_segment_from_point_list on every order of every 2-4 subset of collinear points."""

    def __init__(self, pose):
        self.name = 'pointlist/' + pose.name
        self.pose = pose
        lines = [((0, 0, 0), (1, 0, 0)), ((1, 0, 1), (1, 1, 0)), ((0, 1, 0), (1, 2, 2)), ((3, 1, 1), (-1, 0, 0))]
        ts = (-1, 0, F(1, 2), 1, 3)
        from itertools import combinations
        sc = []
        for p, d in lines:
            pts = [X.add(p, X.scal(t, d)) for t in ts]
            for k in (2, 3, 4):
                for sub in combinations(pts, k):
                    for perm in permutations(sub):
                        sc.append(tuple(pose.point(x) for x in perm))
        self._sc = sc
        self.total = len(sc)
        self._shards = [(i, min(i + 400, len(sc))) for i in range(0, len(sc), 400)]

    def shards(self):
        return self._shards

    def scenes(self, shard):
        return iter(self._sc[shard[0]:shard[1]])

    def eval(self, pts):
        return eval_pointlist(self.name, pts)


def eval_pointlist(fam, pts):
    d = X.sub(pts[1], pts[0])
    ts = sorted(pts, key=lambda x: X.dot(X.sub(x, pts[0]), d))
    e = X.Sg(ts[0], ts[-1])
    r = lib.call(get_segment_from_point_list, [lib.P(p) for p in pts])
    ok, why = lib.matches(r, e)
    cell = 'pointlist|n%d' % len(pts)
    if ok:
        return cell, []
    return cell, [Viol('C02|helper|get_segment_from_point_list|n%d|%s' % (len(pts), why), core.enc(pts), core.enc(e), lib.describe(r),
                       'longest segment through collinear points')]


def families(tier):
    fams = []
    if tier == 'quick':
        params = (-1, 0, F(1, 2), 2)
        for pose in A.poses(tier):
            for b in A.QUICK_BODIES:
                fams.append(FlatBody(b, pose, params))
            fams.append(PointList(pose))
        fams = A.with_int_mode(fams, tier)
        for b in ('triangle', 'hexagon'):
            fams.append(FlatBody(b, A.P4, params))
        moved = ('triangle', 'tetrahedron')
        step = 7
    else:
        # budget: every body under the lattice and the first oblique pose, the quick bodies under every pose and in
        # every numeric / constructor-form mode
        params = (-2, -1, 0, F(1, 2), 1, 2)
        wide = [b for b in list(A.POLYGONS) + list(A.POLYHEDRA) if b not in A.QUICK_BODIES]
        core_f, rest = [], []
        for pose in A.poses(tier):
            for b in A.QUICK_BODIES:
                core_f.append(FlatBody(b, pose, params))
            core_f.append(PointList(pose))
            if pose.name in ('P0', 'PZ', 'P1'):
                for b in wide:
                    rest.append(FlatBody(b, pose, (-1, 0, F(1, 2), 2)))
        fams = A.with_int_mode(core_f, tier) + rest
        moved = A.QUICK_BODIES + ['square', 'pyramid']
        step = 4
    for b in moved:
        fams.append(MovedBody(b, A.P1, params, step))
    for pname in (('tri-z0', 'tetra') if tier == 'quick' else Twins.PAIRS):
        fams.append(Twins(pname, (-1, 0, F(1, 2), 2), step=(5 if tier == 'quick' else 1)))
    return fams


def run(tier, seed):
    A.validate_catalogue()
    fams = families(tier)
    res = core.run_families('C02', fams, seed)
    res.rule = ('for each catalogue body x pose: every Line/HalfLine/Segment/Plane/Point anchored at a feature point (vertex, edge midpoint, face '
                'point, interior) with every direction of D1 + edge directions + facet normals and every parameter window, both argument orders; '
                'non-trivial = non-empty exact intersection')
    res.alphabets = {f.name: f.total for f in fams}
    return res


def replay(family, scene):
    sc = core.dec(scene)
    if family.startswith('pointlist'):
        return eval_pointlist(family, sc)[1]
    a, b = sc
    if family.startswith('moved'):
        return eval_moved(family, a, b)[1]
    if a[0] == 'Segment' and b[0] in X.BODY and family == 'helper':
        return eval_helper(family, a, b)
    cell, viols = eval_inter('C02', family, a, b, forms=('fn',), measures=True)
    f, K = (a, b) if b[0] in X.BODY else (b, a)
    if f[0] == 'Segment' and a is f:
        viols += eval_helper(family, f, K)
    return viols
