"""C06 — length, area and volume equal the exact measures, whatever the vertex order, the
face order or the face orientations.

E1: all (or a stated structured family of) vertex permutations of every catalogue polygon,
all face orders x orientations of every catalogue polyhedron (bounds per size stated in the
evidence), x poses; Segment.length; Pyramid height/volume; volume()."""
import math
from fractions import Fraction as F

from Geometry3D import ConvexPolygon, ConvexPolyhedron, Segment, Pyramid, volume

from .. import core, lib, exact as X, alphabet as A, perm
from ..core import Viol, Family

LEVEL = 'exploration'
TECHNIQUE = 'bounded-exhaustive enumeration of vertex permutations / face orders x orientations x poses on the real code vs exact rational measures'


def cmp_measures(prop, tag, cell, sc_fn, obj, exact_obj, what):
    viols = []
    for name, fn, exp in what:
        v = lib.call(fn)
        if isinstance(v, lib.Raised):
            why = 'raises:' + v.cls
        elif isinstance(v, bool) or not isinstance(v, (int, float)) or not lib.close_rel(v, exp):
            why = 'wrong-value'
        else:
            continue
        viols.append(Viol('%s|%s|%s|%s|%s' % (prop, tag, name, cell, why), sc_fn(), exp, lib.describe(v),
                          '%s of %s expected %r got %r' % (name, cell, exp, lib.describe(v))))
    return viols


def eval_polygon(fam, pts):
    e = X.Pg(pts)
    n = len(pts)
    cell = 'polygon-n%d' % n
    r = lib.call(lambda: ConvexPolygon(tuple(lib.P(p) for p in pts)))
    if isinstance(r, lib.Raised):
        return cell, [Viol('C06|polygon|construct|%s|raises:%s' % (cell, r.cls), core.enc(('polygon', pts)), 'a polygon', repr(r), 'constructor raised')]
    return cell, cmp_measures('C06', 'polygon', cell, lambda: core.enc(('polygon', pts)), r, e,
                              [('length', r.length, X.f_length(e)), ('area', r.area, X.f_area(e))])


def build_polyhedron(faces, order, orient):
    fs = []
    for k in order:
        cyc = faces[k]
        if orient[k]:
            cyc = tuple(reversed(cyc))
        fs.append(ConvexPolygon(tuple(lib.P(p) for p in cyc)))
    return ConvexPolyhedron(tuple(fs))


def eval_polyhedron(fam, faces, order, orient):
    verts = tuple(dict.fromkeys(v for cyc in faces for v in cyc))
    e = X.Ph(verts)
    cell = 'polyhedron-F%d' % len(faces)
    sc = lambda: core.enc(('polyhedron', faces, order, orient))
    r = lib.call(build_polyhedron, faces, order, orient)
    if isinstance(r, lib.Raised):
        return cell, [Viol('C06|polyhedron|construct|%s|raises:%s' % (cell, r.cls), sc(), 'a polyhedron', repr(r), 'constructor raised')]
    return cell, cmp_measures('C06', 'polyhedron', cell, sc, r, e,
                              [('length', r.length, X.f_length(e)), ('area', r.area, X.f_area(e)),
                               ('volume', r.volume, X.f_volume(e)), ('volume()', lambda: volume(r), X.f_volume(e))])


def eval_segment(fam, p, q):
    e = X.Sg(p, q)
    r = lib.call(lambda: Segment(lib.P(p), lib.P(q)))
    if isinstance(r, lib.Raised):
        return 'segment', [Viol('C06|segment|construct|raises:' + r.cls, core.enc(('segment', p, q)), 'segment', repr(r), '')]
    return 'segment', cmp_measures('C06', 'segment', 'segment', lambda: core.enc(('segment', p, q)), r, e, [('length', r.length, X.f_length(e))])


def eval_pyramid(fam, cyc, apex):
    base = X.Pg(cyc)
    n, _ = X.poly_cycle(tuple(cyc))
    h2 = X.dist2_point_plane(apex, X.Pl(cyc[0], n))
    h = math.sqrt(h2)
    vol = h * X.f_area(base) / 3
    sc = lambda: core.enc(('pyramid', cyc, apex))
    r = lib.call(lambda: Pyramid(ConvexPolygon(tuple(lib.P(p) for p in cyc)), lib.P(apex), direct_call=False))
    if isinstance(r, lib.Raised):
        return 'pyramid', [Viol('C06|pyramid|construct|raises:' + r.cls, sc(), 'pyramid', repr(r), '')]
    return 'pyramid', cmp_measures('C06', 'pyramid', 'pyramid', sc, r, None,
                                   [('height', r.height, h), ('volume', r.volume, vol), ('volume()', lambda: volume(r), vol)])


MOVES = ((1, 2, -1), (F(-1, 2), F(1, 4), 0))


def eval_moved(fam, s):
    """measure, move in place, measure the receiver and the returned object again."""
    from Geometry3D import Vector
    kind, pts, faces = s[1], s[2], s[3]
    sc = lambda: core.enc(s)
    viols = []
    if kind == 'polygon':
        e = X.Pg(pts)
        r = lib.call(lambda: ConvexPolygon(tuple(lib.P(p) for p in pts)))
        what = lambda o: [('length', o.length, X.f_length(e)), ('area', o.area, X.f_area(e))]
    else:
        verts = tuple(dict.fromkeys(v for cyc in faces for v in cyc))
        e = X.Ph(verts)
        r = lib.call(build_polyhedron, faces, tuple(range(len(faces))), tuple(i % 2 for i in range(len(faces))))
        what = lambda o: [('length', o.length, X.f_length(e)), ('area', o.area, X.f_area(e)), ('volume', o.volume, X.f_volume(e)),
                          ('volume()', lambda: volume(o), X.f_volume(e))]
    cell = 'moved-' + kind
    if isinstance(r, lib.Raised):
        return cell, [Viol('C06|moved|construct|%s|raises:%s' % (kind, r.cls), sc(), 'object', repr(r), '')]
    if kind == 'polyhedron':
        # a second body built from the very same face objects must not be affected by moving the first one
        twin_faces = [ConvexPolygon(tuple(lib.P(p) for p in cyc)) for cyc in faces]
        b1 = lib.call(lambda: ConvexPolyhedron(tuple(twin_faces)))
        b2 = lib.call(lambda: ConvexPolyhedron(tuple(twin_faces)))
        if not isinstance(b1, lib.Raised) and not isinstance(b2, lib.Raised):
            lib.call(b1.move, lib.V(MOVES[0]))
            viols += cmp_measures('C06', 'moved', cell + '|twin-built-from-the-same-face-objects', sc, b2, e, what(b2))
    viols += cmp_measures('C06', 'moved', cell + '|before', sc, r, e, what(r))
    if kind == 'polygon':
        # objects derived from r (its negation, a deep copy, the object returned by a move of a copy) are moved: r keeps its measures
        derived = lib.call(lambda: -r)
        if isinstance(derived, lib.Raised):
            viols.append(Viol('C06|moved|negate|%s|raises:%s' % (kind, derived.cls), sc(), 'negated polygon', repr(derived), ''))
        else:
            lib.call(derived.move, lib.V(MOVES[0]))
            lib.call(derived.move, lib.V((7, -5, 3)))
            viols += cmp_measures('C06', 'moved', cell + '|original-after-its-negation-was-moved', sc, r, e, what(r))
            viols += cmp_measures('C06', 'moved', cell + '|moved-negation', sc, derived, e, what(derived))
        import copy as _copy
        dc = lib.call(_copy.deepcopy, r)
        if not isinstance(dc, lib.Raised):
            lib.call(dc.move, lib.V((7, -5, 3)))
            viols += cmp_measures('C06', 'moved', cell + '|original-after-its-deep-copy-was-moved', sc, r, e, what(r))
    for i, v in enumerate(MOVES):
        ret = lib.call(r.move, lib.V(v))
        if isinstance(ret, lib.Raised):
            viols.append(Viol('C06|moved|move|%s|raises:%s' % (kind, ret.cls), sc(), 'moved object', repr(ret), ''))
            break
        viols += cmp_measures('C06', 'moved', cell + '|receiver-after-move', sc, r, e, what(r))
        viols += cmp_measures('C06', 'moved', cell + '|returned-by-move', sc, ret, e, what(ret))
        if kind == 'polygon':
            # the moved polygon used as the base of a pyramid (height / volume go through its plane)
            tsum = (0, 0, 0)
            for vv in MOVES[:i + 1]:
                tsum = X.add(tsum, vv)
            n = X.clear(X.plane_normal_of(pts))
            c = X.interior_point(e)
            apex = X.add(X.add(c, tsum), X.scal(2, n))
            h = math.sqrt(X.dist2_point_plane(apex, X.Pl(X.add(pts[0], tsum), n)))
            vol = h * X.f_area(e) / 3
            for who, base in (('receiver', r), ('returned', ret)):
                py = lib.call(lambda: Pyramid(base, lib.P(apex), direct_call=False))
                if isinstance(py, lib.Raised):
                    viols.append(Viol('C06|moved|pyramid-over-%s|raises:%s' % (who, py.cls), sc(), 'pyramid', repr(py), ''))
                else:
                    viols += cmp_measures('C06', 'moved', cell + '|pyramid-over-' + who, sc, py, None,
                                          [('height', py.height, h), ('volume', py.volume, vol), ('volume()', lambda: volume(py), vol)])
    return cell, viols


def eval_scene(fam, s):
    k = s[0]
    if k == 'moved':
        return eval_moved(fam, s)
    if k == 'polygon':
        return eval_polygon(fam, s[1])
    if k == 'polyhedron':
        return eval_polyhedron(fam, s[1], s[2], s[3])
    if k == 'segment':
        return eval_segment(fam, s[1], s[2])
    if k == 'pyramid':
        return eval_pyramid(fam, s[1], s[2])
    raise core.HarnessError('bad scene')


class PolygonPerms(Family):
    def __init__(self, name, pose, full_upto, chunk=600):
        self.name = 'polyperm/%s/%s' % (name, pose.name)
        self.pts = [pose.point(p) for p in A.POLYGONS[name]]
        self.perms = perm.polygon_perms(len(self.pts), full_upto)
        self.total = len(self.perms)
        self._shards = [(i, min(i + chunk, self.total)) for i in range(0, self.total, chunk)]

    def shards(self):
        return self._shards

    def scenes(self, shard):
        for pm in self.perms[shard[0]:shard[1]]:
            yield ('polygon', tuple(self.pts[i] for i in pm))

    def eval(self, s):
        return eval_scene(self.name, s)

    def nontrivial(self, cell):
        return True


class FaceVariants(Family):
    scene_timeout = 120.0

    def __init__(self, name, pose, tier, chunk=None):
        self.name = 'faces/%s/%s' % (name, pose.name)
        self.faces = tuple(tuple(c) for c in perm.body_faces(pose(A.polyhedron(name))))
        self.orders, self.orients = perm.face_variants(len(self.faces), tier)
        self.total = len(self.orders) * len(self.orients)
        chunk = chunk or max(1, 600 // len(self.orients))
        self._shards = [(i, min(i + chunk, len(self.orders))) for i in range(0, len(self.orders), chunk)]

    def shards(self):
        return self._shards

    def scenes(self, shard):
        for od in self.orders[shard[0]:shard[1]]:
            for ot in self.orients:
                yield ('polyhedron', self.faces, od, ot)

    def eval(self, s):
        return eval_scene(self.name, s)

    def nontrivial(self, cell):
        return True


class Misc(Family):
    def __init__(self, pose, tier):
        self.name = 'segments+pyramids/' + pose.name
        pts = A.B0 if tier == 'quick' else A.B1
        sc = [('segment', pose.point(p), pose.point(q)) for p in pts for q in pts if p != q]
        apexes = [(x, y, z) for x in (-1, 0, 1, 2) for y in (0, 1, 3) for z in (-2, F(-1, 2), 1, 3)]
        for name in (A.QUICK_BODIES if tier == 'quick' else list(A.POLYHEDRA)):
            if name not in A.POLYHEDRA:
                continue
            K = A.polyhedron(name)
            for n, cyc in X.facets_of(K):
                for ap in apexes:
                    if X.dot(n, X.sub(ap, cyc[0])) != 0:
                        sc.append(('pyramid', tuple(pose.point(v) for v in cyc), pose.point(ap)))
        for name in A.POLYGONS:
            sc.append(('moved', 'polygon', tuple(pose.point(p) for p in A.POLYGONS[name]), ()))
        for name in (('tetrahedron', 'box', 'pyramid', 'cut-cube') if tier == 'quick' else list(A.POLYHEDRA)):
            K = pose(A.polyhedron(name))
            sc.append(('moved', 'polyhedron', (), tuple(tuple(c) for c in perm.body_faces(K))))
        self.sc = sc
        self.total = len(sc)
        self._shards = [(i, min(i + 300, self.total)) for i in range(0, self.total, 300)]

    def shards(self):
        return self._shards

    def scenes(self, shard):
        return iter(self.sc[shard[0]:shard[1]])

    def eval(self, s):
        return eval_scene(self.name, s)

    def nontrivial(self, cell):
        return True


def variant_families(tier):
    fams = []
    full_upto = 7 if tier == 'quick' else 8
    phs = ['tetrahedron', 'pyramid', 'prism', 'box', 'cut-cube', 'octahedron', 'skew-tetra', 'skew-prism', 'unit-cube', 'unit-tetra', 'unit-prism'] if tier == 'quick' else list(A.POLYHEDRA)
    for pose in A.poses(tier):
        for name in A.POLYGONS:
            fams.append(PolygonPerms(name, pose, full_upto if pose.name in ('P0', 'P1') else 6))
        for name in phs:
            if tier != 'quick' and pose.name in ('P2',) and len(perm.body_faces(A.polyhedron(name))) >= 6:
                continue
            fams.append(FaceVariants(name, pose, tier if pose.name in ('P0', 'P3') else 'quick'))
    return fams


def families(tier):
    return variant_families(tier) + [Misc(pose, tier) for pose in A.poses(tier)]


def run(tier, seed):
    A.validate_catalogue()
    fams = families(tier)
    res = core.run_families('C06', fams, seed)
    res.rule = ('every vertex permutation of each catalogue polygon (all n! up to the stated n, the structured family rotations x reflections + '
                'transpositions + all ordered first-three choices beyond), every face order x orientation variant of each catalogue polyhedron '
                '(sizes in alphabets), every lattice segment, every (face, lattice apex) pyramid; all are distinct constructions and non-trivial')
    res.alphabets = {f.name: f.total for f in fams}
    return res


def replay(family, scene):
    return eval_scene(family, core.dec(scene))[1]
