"""C08 — equality is representation independent and consistent with hashing.

E1: for every base object a finite family Rep(o) of alternative exact representations of
the same set and a family Near(o) of near-miss different sets; all pairs are compared."""
import copy
from fractions import Fraction as F
from itertools import permutations, product

from Geometry3D import (Point, Vector, Line, Segment, HalfLine, Plane, ConvexPolygon, ConvexPolyhedron)

from .. import core, lib, exact as X, alphabet as A, perm
from ..core import Viol, Family
from ..icheck import faces_hash_ok

LEVEL = 'exploration'
TECHNIQUE = 'bounded-exhaustive enumeration of representation families and near-miss families on the real code vs exact same-set decision'


def num(x, mode):
    if mode == 'float':
        return float(x)
    if mode == 'Fraction':
        return F(x)
    if mode == 'int':
        return int(x) if F(x).denominator == 1 else float(x)
    raise ValueError(mode)


def build(rec):
    """recipe -> library object (public constructors only)."""
    k = rec[0]
    if k == 'moveback':
        o = build(rec[1])
        v = Vector(*[float(c) for c in rec[2]])
        # the object is used (hashed, compared, printed) before, between and after the moves
        hash(o), o == o, repr(o)
        o.move(v)
        hash(o), o == o
        r = o.move(-v)
        return r if rec[3] == 'returned' else o
    if k == 'movedfrom':
        # built somewhere else, used there (hashed / compared), then moved in place to the target position
        o = build(rec[1])
        hash(o), o == o, repr(o)
        v = Vector(*[float(c) for c in rec[2]])
        r = o.move(v)
        return r if rec[3] == 'returned' else o
    if k == 'deepcopy':
        return copy.deepcopy(build(rec[1]))
    mode = rec[-1]
    Pm = lambda p: Point(*[num(c, mode) for c in p])
    Vm = lambda v: Vector(*[num(c, mode) for c in v])
    if k == 'Point':
        return Pm(rec[1])
    if k == 'Point/list':
        return Point([num(c, mode) for c in rec[1]])
    if k == 'Point/vector':
        return Point(Vm(rec[1]))
    if k == 'Vector':
        return Vm(rec[1])
    if k == 'Vector/PP':
        return Vector(Pm(rec[1]), Pm(rec[2]))
    if k == 'Line/PV':
        return Line(Pm(rec[1]), Vm(rec[2]))
    if k == 'Line/PP':
        return Line(Pm(rec[1]), Pm(rec[2]))
    if k == 'Line/sharedPP':
        return Line(lib.use_point_elsewhere(Pm(rec[1])), Pm(rec[2]))
    if k == 'Plane/sharedPN':
        return Plane(lib.use_point_elsewhere(Pm(rec[1])), Vm(rec[2]))
    if k == 'Line/VV':
        return Line(Vm(rec[1]), Vm(rec[2]))
    if k == 'Line/factory-moved':
        # through the library's own factory objects: a line at the origin (Vector.zero() / origin() as support), moved into place
        from Geometry3D import origin
        l = Line(Vector.zero(), Vm(rec[2])) if sum(abs(int(2 * c)) for c in rec[2]) % 2 else Line(origin(), Vm(rec[2]))
        l.move(Vm(rec[1]))
        return l
    if k == 'Plane/factory-moved':
        from Geometry3D import origin
        pl = Plane(origin(), Vm(rec[2]))
        pl.move(Vm(rec[1]))
        return pl
    if k == 'Point/factory-moved':
        from Geometry3D import origin
        o = origin()
        o.move(Vm(rec[1]))
        return o
    if k == 'HalfLine/PV':
        return HalfLine(Pm(rec[1]), Vm(rec[2]))
    if k == 'HalfLine/PnegnegV':
        # the same direction obtained by negating the opposite vector (zero components become -0.0)
        return HalfLine(Pm(rec[1]), -Vm(X.neg(rec[2])))
    if k == 'Line/PnegnegV':
        return Line(Pm(rec[1]), Vm(X.neg(rec[2])) * -1)
    if k == 'Vector/negneg':
        return -Vm(X.neg(rec[1]))
    if k == 'Point/negzero':
        return Point(*[(-0.0 if c == 0 else num(c, 'float')) for c in rec[1]])
    if k == 'HalfLine/PP':
        return HalfLine(Pm(rec[1]), Pm(rec[2]))
    if k == 'Segment/PP':
        return Segment(Pm(rec[1]), Pm(rec[2]))
    if k == 'Segment/PV':
        return Segment(Pm(rec[1]), Vm(rec[2]))
    if k == 'Plane/PN':
        return Plane(Pm(rec[1]), Vm(rec[2]))
    if k == 'Plane/3P':
        return Plane(Pm(rec[1]), Pm(rec[2]), Pm(rec[3]))
    if k == 'Plane/PVV':
        return Plane(Pm(rec[1]), Vm(rec[2]), Vm(rec[3]))
    if k == 'Plane/GF':
        return Plane(*[num(c, mode) for c in rec[1]])
    if k == 'Plane/neg':
        return -Plane(Pm(rec[1]), Vm(rec[2]))
    if k == 'Polygon':
        return ConvexPolygon(tuple(Pm(p) for p in rec[1]))
    if k == 'Polygon/neg':
        return -ConvexPolygon(tuple(Pm(p) for p in rec[1]))
    if k == 'Polyhedron':
        faces, order, orient = rec[1], rec[2], rec[3]
        fs = []
        for i in order:
            cyc = faces[i]
            if orient[i]:
                cyc = tuple(reversed(cyc))
            fs.append(ConvexPolygon(tuple(Pm(p) for p in cyc)))
        return ConvexPolyhedron(tuple(fs))
    raise core.HarnessError('bad recipe %r' % (rec,))


def den(rec):
    """exact denotation of a recipe."""
    k = rec[0]
    if k in ('moveback', 'deepcopy'):
        return den(rec[1])
    if k == 'movedfrom':
        d = den(rec[1])
        if d[0] == 'Vector':
            return d
        return X.xform(d, ((1, 0, 0), (0, 1, 0), (0, 0, 1)), 1, rec[2])
    if k in ('Point', 'Point/list', 'Point/vector'):
        return X.Pt(rec[1])
    if k == 'Vector':
        return ('Vector', tuple(rec[1]))
    if k == 'Vector/PP':
        return ('Vector', X.sub(rec[2], rec[1]))
    if k in ('Line/PV', 'Line/VV', 'Line/factory-moved'):
        return X.Ln(rec[1], rec[2])
    if k == 'Plane/factory-moved':
        return X.Pl(rec[1], rec[2])
    if k == 'Point/factory-moved':
        return X.Pt(rec[1])
    if k in ('Line/PP', 'Line/sharedPP'):
        return X.Ln(rec[1], X.sub(rec[2], rec[1]))
    if k == 'Plane/sharedPN':
        return X.Pl(rec[1], rec[2])
    if k in ('HalfLine/PV', 'HalfLine/PnegnegV'):
        return X.Hl(rec[1], rec[2])
    if k == 'Line/PnegnegV':
        return X.Ln(rec[1], rec[2])
    if k == 'Vector/negneg':
        return ('Vector', tuple(rec[1]))
    if k == 'Point/negzero':
        return X.Pt(rec[1])
    if k == 'HalfLine/PP':
        return X.Hl(rec[1], X.sub(rec[2], rec[1]))
    if k == 'Segment/PP':
        return X.Sg(rec[1], rec[2])
    if k == 'Segment/PV':
        return X.Sg(rec[1], X.add(rec[1], rec[2]))
    if k in ('Plane/PN', 'Plane/neg'):
        return X.Pl(rec[1], rec[2])
    if k == 'Plane/3P':
        return X.Pl(rec[1], X.cross(X.sub(rec[2], rec[1]), X.sub(rec[3], rec[1])))
    if k == 'Plane/PVV':
        return X.Pl(rec[1], X.cross(rec[2], rec[3]))
    if k == 'Plane/GF':
        a, b, c, d = rec[1]
        n = (a, b, c)
        return X.Pl(tuple(F(d) * F(x, X.n2(n)) for x in n), n)
    if k in ('Polygon', 'Polygon/neg'):
        return X.Pg(tuple(dict.fromkeys(rec[1])))
    if k == 'Polyhedron':
        return X.Ph(tuple(dict.fromkeys(v for cyc in rec[1] for v in cyc)))
    raise core.HarnessError('bad recipe')


def same(a, b):
    if a[0] == 'Vector' or b[0] == 'Vector':
        return a[0] == b[0] and X.frv(a[1]) == X.frv(b[1])
    return X.same_set(a, b)


FOREIGN = [('int', 3), ('str', 's'), ('None', None), ('tuple', (1, 2, 3)), ('float', 2.5)]


def kind_of(rec):
    k = rec[0]
    if k in ('moveback', 'deepcopy', 'movedfrom'):
        return kind_of(rec[1])
    return k.split('/')[0]


def eval_group(fam, base_kind, reps, nears):
    """reps: recipes of the same set; nears: recipes of different sets."""
    cell = '%s|reps%d|nears%d' % (base_kind, len(reps), len(nears))
    d0 = den(reps[0])
    for r in reps[1:]:
        if not same(d0, den(r)):
            raise core.HarnessError('representation family is not one set: %r vs %r' % (reps[0], r))
    for r in nears:
        if same(d0, den(r)):
            raise core.HarnessError('near-miss denotes the same set: %r vs %r' % (reps[0], r))
    viols = []
    sc = None

    def bad(sym, pair, exp, got):
        nonlocal sc
        sc = core.enc((base_kind, tuple(reps), tuple(nears)))
        viols.append(Viol('C08|%s|%s' % (base_kind, sym.split('|')[0]), sc, exp, got if isinstance(got, (str, list)) else lib.describe(got),
                          '%s between %s and %s' % (sym, pair[0], pair[1])))

    objs = [lib.construct(kind_of(r), lambda r=r: build(r)) for r in reps]
    nobjs = [lib.construct(kind_of(r), lambda r=r: build(r)) for r in nears]
    hs = []
    for r, o in zip(reps, objs):
        h = lib.call(hash, o)
        if isinstance(h, lib.Raised):
            bad('hash-raises:' + h.cls, (r, r), 'an int', repr(h))
        hs.append(h)
    seen = set()
    for i, (ra, a) in enumerate(zip(reps, objs)):
        for j, (rb, b) in enumerate(zip(reps, objs)):
            e = lib.call(lambda: a == b)
            if e is not True:
                sym = 'equal-sets-compare-unequal' if not isinstance(e, lib.Raised) else 'eq-raises:' + e.cls
                key = (sym, ra[0], rb[0])
                if key not in seen:
                    seen.add(key)
                    bad('%s|%s~%s' % (sym, ra[0], rb[0]), (ra, rb), True, e)
                continue
            ne = lib.call(lambda: a != b)
            if ne is not False:
                key = ('ne', ra[0], rb[0])
                if key not in seen:
                    seen.add(key)
                    bad('ne-inconsistent|%s~%s' % (ra[0], rb[0]), (ra, rb), False, ne)
            if i < j and not isinstance(hs[i], lib.Raised) and not isinstance(hs[j], lib.Raised) and hs[i] != hs[j]:
                key = ('hash', ra[0], rb[0])
                if key not in seen:
                    seen.add(key)
                    bad('equal-but-hash-differs|%s~%s' % (ra[0], rb[0]), (ra, rb), 'equal hashes', [ra[0], rb[0]])
    if not any(isinstance(h, lib.Raised) for h in hs):
        n = lib.call(lambda: len(set(objs)))
        if n != 1 and not any('hash-differs' in v.sig or 'compare-unequal' in v.sig for v in viols):
            bad('set-does-not-deduplicate', (reps[0], reps[0]), 1, n)
    for ra, a in list(zip(reps, objs))[:3]:
        for rb, b in zip(nears, nobjs):
            for x, y, lab in ((a, b, 'ab'), (b, a, 'ba')):
                e = lib.call(lambda: x == y)
                if e is not False:
                    sym = 'different-sets-compare-equal' if not isinstance(e, lib.Raised) else 'eq-raises:' + e.cls
                    key = (sym, ra[0], rb[0])
                    if key not in seen:
                        seen.add(key)
                        bad('%s|%s~%s' % (sym, ra[0], rb[0]), (ra, rb), False, e)
                    continue
                ne = lib.call(lambda: x != y)
                if ne is not True:
                    key = ('ne2', ra[0], rb[0])
                    if key not in seen:
                        seen.add(key)
                        bad('ne-inconsistent|%s~%s' % (ra[0], rb[0]), (ra, rb), True, ne)
    return cell, viols


def eval_foreign(fam, rec):
    k = kind_of(rec)
    o = lib.construct(k, lambda: build(rec))
    viols = []
    others = [(n, v) for n, v in FOREIGN]
    tet = X.Ph(A.POLYHEDRA['tetrahedron'])
    geo = {'Point': lambda: Point(1.0, 2.0, 3.0), 'Line': lambda: Line(Point(0, 0, 0), Vector(1, 1, 0)),
           'Plane': lambda: Plane(Point(0, 0, 1), Vector(0, 1, 1)), 'Segment': lambda: Segment(Point(0, 0, 0), Point(1, 2, 0)),
           'HalfLine': lambda: HalfLine(Point(0, 1, 0), Vector(1, 0, 2)),
           'ConvexPolygon': lambda: lib.to_lib(X.Pg(A.POLYGONS['triangle'])), 'ConvexPolyhedron': lambda: lib.to_lib(tet)}
    myname = type(o).__name__
    for n, mk in geo.items():
        if n != myname:
            others.append((n, lib.construct(n, mk)))
    for n, v in others:
        e = lib.call(lambda: o == v)
        if e is not False:
            viols.append(Viol('C08|foreign|%s==%s|%s' % (myname, n, 'raises:' + e.cls if isinstance(e, lib.Raised) else 'not-False'),
                              core.enc(('foreign', rec)), False, lib.describe(e), '%s == %s must be False' % (myname, n)))
        ne = lib.call(lambda: o != v)
        if ne is not True and e is False:
            viols.append(Viol('C08|foreign|%s!=%s|not-True' % (myname, n), core.enc(('foreign', rec)), True, lib.describe(ne), ''))
    return 'foreign|' + myname, viols


def eval_scene(fam, s):
    if s[0] == 'foreign':
        return eval_foreign(fam, s[1])
    if s[0] == 'group':
        return eval_group(fam, s[1], list(s[2]), list(s[3]))
    base_kind, reps, nears = s
    return eval_group(fam, base_kind, list(reps), list(nears))


# --------------------------------------------------------------------------- families of representations

KS = (1, -1, 2, -2, F(1, 2), -3)
E = ((1, 0, 0), (0, 1, 0), (0, 0, 1))
MOVES = ((1, 2, -1), (F(-1, 2), F(1, 4), 0))


POINT_ARGS = {'Point': (1,), 'Line/PV': (1,), 'Line/PP': (1, 2), 'HalfLine/PV': (1,), 'HalfLine/PP': (1, 2), 'Segment/PP': (1, 2), 'Segment/PV': (1,),
              'Plane/PN': (1,), 'Plane/3P': (1, 2, 3), 'Plane/PVV': (1,)}


def moved_from(rec, v, which='receiver'):
    """recipe: build `rec` translated by -v, use it there, then move it by +v."""
    k = rec[0]
    mv = X.neg(v)
    if k in POINT_ARGS:
        r2 = list(rec)
        for i in POINT_ARGS[k]:
            r2[i] = X.add(rec[i], mv)
        return ('movedfrom', tuple(r2), v, which)
    if k == 'Polygon':
        return ('movedfrom', ('Polygon', tuple(X.add(p, mv) for p in rec[1]), rec[2]), v, which)
    if k == 'Polyhedron':
        return ('movedfrom', ('Polyhedron', tuple(tuple(X.add(p, mv) for p in cyc) for cyc in rec[1]), rec[2], rec[3], rec[4]), v, which)
    raise core.HarnessError('cannot shift %r' % (k,))


def tilt(d, i):
    return tuple(F(c) + (F(1, 64) * (abs(F(d[0])) + abs(F(d[1])) + abs(F(d[2]))) if k == i else 0) for k, c in enumerate(d))


def hash_ok_dir(d):
    nn = X.n2(d)
    return all(X.hash_boundary_ok_sqrt(c, nn) for c in d)


def line_group(p, d):
    reps = [('Line/PV', p, d, 'float')]
    for j in (1, -2, F(1, 2)):
        reps.append(('Line/PV', X.add(p, X.scal(j, d)), d, 'float'))
    for k in KS[1:]:
        reps.append(('Line/PV', p, X.scal(k, d), 'float'))
    reps.append(('Line/PP', p, X.add(p, d), 'float'))
    reps.append(('Line/sharedPP', p, X.add(p, d), 'float'))
    reps.append(('Line/PP', X.add(p, X.scal(2, d)), X.sub(p, d), 'float'))
    reps.append(('Line/VV', p, d, 'float'))
    reps.append(('Line/PnegnegV', p, d, 'float'))
    reps.append(('Line/factory-moved', p, d, 'float'))
    reps.append(('Line/PV', p, d, 'Fraction'))
    reps.append(('Line/PV', p, d, 'int'))
    reps.append(('moveback', ('Line/PV', p, d, 'float'), MOVES[0], 'receiver'))
    reps.append(('moveback', ('Line/PV', p, d, 'float'), MOVES[1], 'returned'))
    reps.append(('deepcopy', ('Line/PV', p, d, 'float')))
    reps.append(moved_from(('Line/PV', p, d, 'float'), MOVES[0]))
    reps.append(moved_from(('Line/PP', p, X.add(p, d), 'float'), MOVES[1], 'returned'))
    nears = []
    for i in range(3):
        off = X.scal(F(1, 64), E[i])
        if not X.is_zero(X.cross(off, d)):
            nears.append(('Line/PV', X.add(p, off), d, 'float'))
        nears.append(('Line/PV', p, tilt(d, i), 'float'))
    nears = [n for n in nears if not X.is_zero(X.cross(n[2], d)) or not X.point_in(n[1], X.Ln(p, d))]
    return ('Line', tuple(reps), tuple(nears))


def halfline_group(p, d):
    reps = [('HalfLine/PV', p, d, 'float')]
    for k in (2, F(1, 2), 3):
        reps.append(('HalfLine/PV', p, X.scal(k, d), 'float'))
    reps.append(('HalfLine/PP', p, X.add(p, d), 'float'))
    reps.append(('HalfLine/PP', p, X.add(p, X.scal(3, d)), 'float'))
    reps.append(('HalfLine/PV', p, d, 'Fraction'))
    reps.append(('HalfLine/PnegnegV', p, d, 'float'))
    reps.append(('moveback', ('HalfLine/PV', p, d, 'float'), MOVES[0], 'receiver'))
    reps.append(('moveback', ('HalfLine/PV', p, d, 'float'), MOVES[1], 'returned'))
    reps.append(('deepcopy', ('HalfLine/PV', p, d, 'float')))
    reps.append(moved_from(('HalfLine/PV', p, d, 'float'), MOVES[0]))
    reps.append(moved_from(('HalfLine/PV', p, d, 'float'), MOVES[1], 'returned'))
    nears = [('HalfLine/PV', p, X.neg(d), 'float'), ('HalfLine/PV', X.add(p, d), d, 'float'), ('HalfLine/PV', X.sub(p, X.scal(F(1, 2), d)), d, 'float')]
    for i in range(3):
        nears.append(('HalfLine/PV', X.add(p, X.scal(F(1, 64), E[i])), d, 'float'))
        t = tilt(d, i)
        if not (X.is_zero(X.cross(t, d)) and X.dot(t, d) > 0):
            nears.append(('HalfLine/PV', p, t, 'float'))
    return ('HalfLine', tuple(reps), tuple(nears))


def segment_group(p, q):
    reps = [('Segment/PP', p, q, 'float'), ('Segment/PP', q, p, 'float'), ('Segment/PV', p, X.sub(q, p), 'float'),
            ('Segment/PV', q, X.sub(p, q), 'float'), ('Segment/PP', p, q, 'Fraction'), ('Segment/PP', q, p, 'int'),
            ('moveback', ('Segment/PP', p, q, 'float'), MOVES[0], 'receiver'),
            ('moveback', ('Segment/PP', q, p, 'float'), MOVES[1], 'returned'), ('deepcopy', ('Segment/PP', p, q, 'float')),
            moved_from(('Segment/PP', p, q, 'float'), MOVES[0]), moved_from(('Segment/PP', q, p, 'float'), MOVES[1], 'returned')]
    nears = []
    d = X.sub(q, p)
    for i in range(3):
        nears.append(('Segment/PP', X.add(p, X.scal(F(1, 64), E[i])), q, 'float'))
        nears.append(('Segment/PP', p, X.add(q, X.scal(F(1, 64), E[i])), 'float'))
    nears.append(('Segment/PP', p, X.add(q, d), 'float'))
    nears.append(('Segment/PP', p, A.mid(p, q), 'float'))
    return ('Segment', tuple(reps), tuple(nears))


def plane_group(p, n):
    # in-plane vectors reduced to coprime integers: all alternative support points stay within the bounded domain of the
    # property (an un-reduced cofactor image of a normal put support points ~7e4 away under pose P4, where the offset of the
    # plane cannot be computed to 10 digits - the harness, not the library, had left the domain)
    u = next(e for e in E if not X.is_zero(X.cross(n, e)))
    v = X.clear(X.cross(X.clear(n), u))
    w = X.clear(X.cross(X.clear(n), v))
    reps = [('Plane/PN', p, n, 'float')]
    for k in KS[1:]:
        reps.append(('Plane/PN', p, X.scal(k, n), 'float'))
    reps.append(('Plane/PN', X.add(p, v), n, 'float'))
    reps.append(('Plane/sharedPN', p, n, 'float'))
    reps.append(('Plane/PN', X.add(X.add(p, X.scal(-2, v)), w), X.neg(n), 'float'))
    reps.append(('Plane/3P', p, X.add(p, v), X.add(p, w), 'float'))
    reps.append(('Plane/3P', X.add(p, w), X.add(p, v), p, 'float'))
    reps.append(('Plane/PVV', p, v, w, 'float'))
    reps.append(('Plane/PVV', p, w, X.add(v, w), 'float'))
    reps.append(('Plane/GF', (n[0], n[1], n[2], X.dot(n, p)), 'float'))
    reps.append(('Plane/GF', (-2 * n[0], -2 * n[1], -2 * n[2], -2 * X.dot(n, p)), 'float'))
    reps.append(('Plane/neg', p, n, 'float'))
    reps.append(('Plane/factory-moved', p, n, 'float'))
    reps.append(('Plane/PN', p, n, 'Fraction'))
    reps.append(('moveback', ('Plane/PN', p, n, 'float'), MOVES[0], 'receiver'))
    reps.append(('moveback', ('Plane/PN', p, n, 'float'), MOVES[1], 'returned'))
    reps.append(('deepcopy', ('Plane/PN', p, n, 'float')))
    reps.append(moved_from(('Plane/PN', p, n, 'float'), MOVES[0]))
    reps.append(moved_from(('Plane/PN', p, n, 'float'), MOVES[1], 'returned'))
    nears = []
    for i in range(3):
        off = X.scal(F(1, 64), E[i])
        if X.dot(off, n) != 0:
            nears.append(('Plane/PN', X.add(p, off), n, 'float'))
        t = tilt(n, i)
        if not X.is_zero(X.cross(t, n)):
            nears.append(('Plane/PN', p, t, 'float'))
    return ('Plane', tuple(reps), tuple(nears))


def point_group(p, kind):
    if kind == 'Point':
        reps = [('Point', p, 'float'), ('Point', p, 'Fraction'), ('Point', p, 'int'), ('Point/list', p, 'float'), ('Point/vector', p, 'float'), ('Point/negzero', p, 'float'), ('Point/factory-moved', p, 'float'),
                ('moveback', ('Point', p, 'float'), MOVES[0], 'receiver'), ('moveback', ('Point', p, 'float'), MOVES[1], 'returned'),
                ('deepcopy', ('Point', p, 'float')), moved_from(('Point', p, 'float'), MOVES[0]), moved_from(('Point', p, 'float'), MOVES[1], 'returned')]
        nears = [('Point', X.add(p, X.scal(k, E[i])), 'float') for i in range(3) for k in (F(1, 64), F(-1, 1024))]
    else:
        reps = [('Vector', p, 'float'), ('Vector', p, 'Fraction'), ('Vector', p, 'int'), ('Vector/PP', (1, 2, 3), X.add((1, 2, 3), p), 'float'), ('Vector/negneg', p, 'float'),
                ('deepcopy', ('Vector', p, 'float'))]
        nears = [('Vector', X.add(p, X.scal(k, E[i])), 'float') for i in range(3) for k in (F(1, 64), F(-1, 1024))]
    return (kind, tuple(reps), tuple(nears))


def polygon_group(pts, full):
    n = len(pts)
    pms = list(permutations(range(n))) if (n <= 5 and full) else [tuple(range(r, n)) + tuple(range(r)) for r in range(n)] + \
        [tuple(reversed(tuple(range(r, n)) + tuple(range(r)))) for r in range(n)]
    reps = [('Polygon', tuple(pts[i] for i in pm), 'float') for pm in pms]
    reps.append(('Polygon', tuple(pts) + (pts[0],), 'float'))
    reps.append(('Polygon/neg', tuple(pts), 'float'))
    reps.append(('Polygon', tuple(pts), 'Fraction'))
    reps.append(('moveback', ('Polygon', tuple(pts), 'float'), MOVES[0], 'receiver'))
    reps.append(('moveback', ('Polygon', tuple(pts), 'float'), MOVES[1], 'returned'))
    reps.append(('deepcopy', ('Polygon', tuple(pts), 'float')))
    reps.append(moved_from(('Polygon', tuple(pts), 'float'), MOVES[0]))
    reps.append(moved_from(('Polygon', tuple(pts), 'float'), MOVES[1], 'returned'))
    nears = []
    c = X.interior_point(X.Pg(pts))
    for i in range(n):
        w = X.sub(pts[i], c)
        moved = list(pts)
        moved[i] = X.add(pts[i], X.scal(F(1, 64), w))
        nears.append(('Polygon', tuple(moved), 'float'))
    if n > 3:
        nears.append(('Polygon', tuple(pts[1:]), 'float'))
    nn = X.clear(X.plane_normal_of(pts))
    nears.append(('Polygon', tuple(X.add(p, X.scal(F(1, 64), nn)) for p in pts), 'float'))
    return ('ConvexPolygon', tuple(reps), tuple(nears))


def polyhedron_group(K, tier):
    faces = tuple(tuple(c) for c in perm.body_faces(K))
    Fn = len(faces)
    if Fn <= 4 or (Fn <= 5 and tier != 'quick'):
        orders = list(permutations(range(Fn)))
    else:
        orders = [tuple(range(r, Fn)) + tuple(range(r)) for r in range(Fn)] + [tuple(reversed(range(Fn)))]
    z = (0,) * Fn
    reps = [('Polyhedron', faces, od, z, 'float') for od in orders]
    reps.append(('Polyhedron', faces, tuple(range(Fn)), (1,) * Fn, 'float'))
    reps.append(('Polyhedron', faces, tuple(range(Fn)), tuple(i % 2 for i in range(Fn)), 'float'))
    reps.append(('Polyhedron', faces, tuple(range(Fn)), z, 'Fraction'))
    reps.append(('moveback', reps[0], MOVES[0], 'receiver'))
    reps.append(('moveback', reps[0], MOVES[1], 'returned'))
    reps.append(('deepcopy', reps[0]))
    reps.append(moved_from(reps[0], MOVES[0]))
    reps.append(moved_from(reps[0], MOVES[1], 'returned'))
    nears = []
    V = K[1]
    c = X.interior_point(K)
    for i in range(min(len(V), 4)):
        moved = list(V)
        moved[i] = X.add(V[i], X.scal(F(1, 16), X.sub(V[i], c)))
        K2 = X.Ph(moved)
        if X.is_convex_position(K2[1]):
            f2 = tuple(tuple(cy) for cy in perm.body_faces(K2))
            nears.append(('Polyhedron', f2, tuple(range(len(f2))), (0,) * len(f2), 'float'))
    K3 = X.xform(K, ((1, 0, 0), (0, 1, 0), (0, 0, 1)), 1, (F(1, 64), 0, 0))
    f3 = tuple(tuple(cy) for cy in perm.body_faces(K3))
    nears.append(('Polyhedron', f3, tuple(range(len(f3))), (0,) * len(f3), 'float'))
    return ('ConvexPolyhedron', tuple(reps), tuple(nears))


def collision_groups():
    """near misses that differ only by replacing a coordinate -1 by -2: CPython gives both the same
    hash (hash(-1) == hash(-2) == -2), so any equality that is decided through hashes confuses them."""
    out = []
    E3 = ((1, 0, 0), (0, 1, 0), (0, 0, 1))
    for ax in range(3):
        e1, e2 = E3[ax], E3[(ax + 1) % 3]
        m1 = X.neg(e1)
        m2 = X.scal(-2, e1)
        # coplanar triangles and quadrilaterals sharing all vertices but one
        tri = (m1, e1, e2)
        tri2 = (m2, e1, e2)
        quad = (m1, X.neg(e2), e1, e2)
        quad2 = (m2, X.neg(e2), e1, e2)
        for a, b in ((tri, tri2), (quad, quad2), (tri2, tri), (quad2, quad)):
            out.append(('ConvexPolygon', (('Polygon', a, 'float'), ('Polygon', tuple(reversed(a)), 'float'), ('Polygon', a, 'int')),
                        (('Polygon', b, 'float'), ('Polygon', b, 'int'))))
        out.append(('Segment', (('Segment/PP', m1, e1, 'float'), ('Segment/PP', e1, m1, 'int')), (('Segment/PP', m2, e1, 'float'), ('Segment/PP', e1, m2, 'int'))))
        out.append(('Point', (('Point', m1, 'float'), ('Point', m1, 'int')), (('Point', m2, 'float'), ('Point', m2, 'int'))))
        out.append(('Vector', (('Vector', m1, 'float'), ('Vector', m1, 'int')), (('Vector', m2, 'float'),)))
        out.append(('HalfLine', (('HalfLine/PV', m1, e2, 'float'),), (('HalfLine/PV', m2, e2, 'float'),)))
        out.append(('Line', (('Line/PV', m1, e2, 'float'),), (('Line/PV', m2, e2, 'float'),)))
        out.append(('Plane', (('Plane/PN', m1, e1, 'float'),), (('Plane/PN', m2, e1, 'float'),)))
        # bodies: two boxes that differ only by -1 <-> -2 in one coordinate of four vertices
        for other in ((0, 1),):
            def boxv(lo):
                vs = []
                for a_ in (lo, 0):
                    for b_ in other:
                        for c_ in other:
                            v = [0, 0, 0]
                            v[ax], v[(ax + 1) % 3], v[(ax + 2) % 3] = a_, b_, c_
                            vs.append(tuple(v))
                return X.Ph(vs)
            for K, K2 in ((boxv(-1), boxv(-2)), (boxv(-2), boxv(-1))):
                f1 = tuple(tuple(c) for c in perm.body_faces(K))
                f2 = tuple(tuple(c) for c in perm.body_faces(K2))
                out.append(('ConvexPolyhedron', (('Polyhedron', f1, tuple(range(len(f1))), (0,) * len(f1), 'float'),
                                                 ('Polyhedron', f1, tuple(reversed(range(len(f1)))), (1,) * len(f1), 'int')),
                            (('Polyhedron', f2, tuple(range(len(f2))), (0,) * len(f2), 'float'),)))
        # bodies: a pyramid over the quadrilateral, apex on the third axis
        e3 = E3[(ax + 2) % 3]
        for q, q2 in ((quad, quad2), (quad2, quad)):
            K, K2 = X.Ph(q + (e3,)), X.Ph(q2 + (e3,))
            f1 = tuple(tuple(c) for c in perm.body_faces(K))
            f2 = tuple(tuple(c) for c in perm.body_faces(K2))
            out.append(('ConvexPolyhedron', (('Polyhedron', f1, tuple(range(len(f1))), (0,) * len(f1), 'float'),),
                        (('Polyhedron', f2, tuple(range(len(f2))), (0,) * len(f2), 'float'),)))
    return out


class Groups(Family):
    scene_timeout = 300.0

    def __init__(self, name, groups, chunk=10):
        self.name = name
        self.groups = groups
        self.total = len(groups)
        self._shards = [(i, min(i + chunk, len(groups))) for i in range(0, len(groups), chunk)]

    def shards(self):
        return self._shards

    def scenes(self, shard):
        return iter(self.groups[shard[0]:shard[1]])

    def eval(self, s):
        if s[0] != 'foreign':
            # admission: hashed quantities away from rounding boundaries (model side)
            d0 = den(s[1][0])
            if d0[0] in ('Line', 'HalfLine') and not hash_ok_dir(d0[2]):
                return 'skip:hash-boundary', []
            if d0[0] == 'Line':
                m = X.cross(d0[2], d0[1])
                if not all(X.hash_boundary_ok_sqrt(c, X.n2(d0[2])) for c in m):
                    return 'skip:hash-boundary', []
            if d0[0] == 'Plane' and not (hash_ok_dir(d0[2]) and X.hash_boundary_ok_sqrt(X.dot(d0[2], d0[1]), X.n2(d0[2]))):
                return 'skip:hash-boundary', []
            if d0[0] in X.BODY and not faces_hash_ok(d0):
                return 'skip:hash-boundary', []
        return eval_scene(self.name, s)

    def nontrivial(self, cell):
        return True


def families(tier):
    fams = []
    poses = A.poses(tier)
    dirs = A.D1 if tier == 'quick' else A.D2
    lpts = A.B0[:4] if tier == 'quick' else A.B0[:8]
    for pose in poses:
        fams.append(Groups('lines/' + pose.name, [line_group(pose.point(p), pose.vec(d)) for p in lpts for d in dirs]))
        fams.append(Groups('halflines/' + pose.name, [halfline_group(pose.point(p), pose.vec(d)) for p in lpts[:3] for d in dirs]))
        fams.append(Groups('planes/' + pose.name, [plane_group(pose.point(p), X.mat_apply(X.cofactor(pose.M), d)) for p in lpts for d in dirs]))
        pairs = [(p, q) for p in A.B0 for q in A.B0 if p < q]
        fams.append(Groups('segments/' + pose.name, [segment_group(pose.point(p), pose.point(q)) for p, q in pairs], chunk=20))
        fams.append(Groups('points/' + pose.name, [point_group(pose.point(p), k) for p in A.B0H for k in ('Point', 'Vector')], chunk=30))
        fams.append(Groups('polygons/' + pose.name, [polygon_group(tuple(pose.point(p) for p in A.POLYGONS[nm]), tier != 'quick' or len(A.POLYGONS[nm]) <= 4)
                                                     for nm in A.POLYGONS], chunk=1))
        phs = ['tetrahedron', 'box', 'pyramid', 'cut-cube'] if tier == 'quick' else list(A.POLYHEDRA)
        fams.append(Groups('polyhedra/' + pose.name, [polyhedron_group(pose(A.polyhedron(nm)), tier) for nm in phs], chunk=1))
    # directions of rational length whose unit vector (and moment / offset) is a short terminating decimal: the hashed
    # quantities sit exactly ON the 10-digit grid, as far from a rounding boundary as they can be, and the float noise of the
    # different representations falls on both sides of the grid point
    tdirs = [(3, 4, 0), (0, 3, -4), (4, 0, 3), (-3, 4, 0), (7, 24, 0), (12, 15, 16), (9, -12, 20), (F(3, 2), 2, 0), (0, F(-7, 4), 6)]
    tpts = lpts[:3] + [(1, 2, 3), (F(-1, 2), F(5, 4), -2)]
    if tier == 'quick':
        tdirs, tpts = tdirs[:6], tpts[1:4]
    fams.append(Groups('lines/terminating-decimal-directions', [line_group(p, d) for p in tpts for d in tdirs], chunk=3))
    fams.append(Groups('halflines/terminating-decimal-directions', [halfline_group(p, d) for p in tpts for d in tdirs], chunk=3))
    fams.append(Groups('planes/terminating-decimal-normals', [plane_group(p, d) for p in tpts for d in tdirs], chunk=3))
    # objects through the origin (offset / moment exactly zero: a canonical form that takes its sign from the offset has
    # nothing to go by), in the identity pose
    odirs = list(dirs) + tdirs[:4]
    O = (0, 0, 0)
    fams.append(Groups('lines/through-origin', [line_group(O, d) for d in odirs] + [line_group(X.scal(-2, d), d) for d in odirs[::3]], chunk=3))
    fams.append(Groups('planes/through-origin', [plane_group(O, d) for d in odirs], chunk=3))
    base = [('Point', (1, 2, 3), 'float'), ('Line/PV', (0, 0, 0), (1, 1, 0), 'float'), ('Plane/PN', (0, 0, 1), (0, 1, 1), 'float'),
            ('Polygon', A.POLYGONS['square'], 'float')]
    tet = A.polyhedron('tetrahedron')
    ft = tuple(tuple(c) for c in perm.body_faces(tet))
    base.append(('Polyhedron', ft, (0, 1, 2, 3), (0, 0, 0, 0), 'float'))
    fams.append(Groups('foreign', [('foreign', b) for b in base], chunk=1))
    fams.append(Groups('hash-collision-near-misses', collision_groups(), chunk=4))
    return fams


def run(tier, seed):
    A.validate_catalogue()
    fams = families(tier)
    res = core.run_families('C08', fams, seed)
    res.rule = ('one scene = one base object with its whole representation family (other support points, direction scalings by +-k, constructor forms, '
                'swapped endpoints, vertex rotations/reflections/permutations, face orders/orientations, int/float/Fraction coordinates, move-and-back, '
                'deepcopy) and near-miss family; all ordered pairs within Rep (==, !=, hash, set dedup) and Rep x Near (!= both ways) are checked; '
                'plus == against foreign types; every scene is non-trivial')
    res.alphabets = {f.name: f.total for f in fams}
    return res


def replay(family, scene):
    return eval_scene(family, core.dec(scene))[1]
