"""C12 — intersection obeys the algebra of set intersection.

E3 closure search: nodes are exact denotations (model side); level 0 is a pool of mutually
related objects of all seven types, level k+1 = intersection(x, c) and intersection(c, x)
for x a *library value* of level k and c in the pool.  Every edge is executed on the
implementation and must land on the model node (conformance along every path =
associativity / commutativity / idempotence / absorption), and every vertex of every result
must belong to both operands according to the library's own membership."""
from fractions import Fraction as F
from itertools import product

from Geometry3D import intersection, Point

from .. import core, lib, exact as X, alphabet as A
from ..core import Viol, Family
from ..icheck import model_inter

EXTRA_HASHSEEDS = (1,)       # thorough tier re-runs the quick space under a second pinned hash seed
LEVEL = 'model_checking'
TECHNIQUE = 'closure (breadth-first) search of a pool under intersection on the real code, every edge checked for conformance with the exact model node'

H = F(1, 2)
Q = F(1, 4)


def pool():
    box = A.polyhedron('box')
    tet = A.polyhedron('tetrahedron')
    P = []
    P += [X.Pt(p) for p in ((0, 0, 0), (1, 0, 0), (1, H, 0), (H, Q, Q), (2, 1, 1), (3, 3, 3), (H, Q, 5 * Q))]   # the last one lies in the oblique face x+y+z=2
    P += [X.Ln((0, 0, 0), (1, 0, 0)), X.Ln((0, 0, 0), (2, 1, 1)), X.Ln((0, H, 0), (1, 0, 0)), X.Ln((H, Q, Q), (0, 0, 1)),
          X.Ln((1, 0, 0), (0, 1, 1)), X.Ln((5, 5, 5), (1, 0, 0))]
    P += [X.Hl((0, 0, 0), (1, 0, 0)), X.Hl((1, 0, 0), (-1, 0, 0)), X.Hl((H, Q, Q), (1, 1, 1)), X.Hl((3, 0, 0), (-1, 0, 0)),
          X.Hl((1, H, 0), (0, 0, 1)), X.Hl((1, H, -1), (0, 0, -1)), X.Hl((0, 1, 1), (2, 0, 0)), X.Hl((3, 1, 1), (-1, 0, 0))]
    P += [X.Sg((0, 0, 0), (2, 0, 0)), X.Sg((0, 0, 0), (1, 0, 0)), X.Sg((1, 0, 0), (3, 0, 0)), X.Sg((0, 0, 0), (2, 1, 1)),
          X.Sg((H, Q, Q), (H, Q, 2)), X.Sg((0, 0, 0), (0, 2, 0)), X.Sg((2, 0, 0), (0, 2, 0)), X.Sg((1, H, H), (Q, Q, 3 * H))]   # last: inside the oblique face
    P += [X.Pl((0, 0, 0), (0, 0, 1)), X.Pl((1, 0, 0), (1, 0, 0)), X.Pl((2, 0, 0), (1, 1, 1)), X.Pl((1, 0, 0), (1, 1, 1)),
          X.Pl((0, H, 0), (0, 1, 0)), X.Pl((0, 0, 2), (0, 0, 1))]
    P += [X.Pg(((0, 0, 0), (2, 0, 0), (2, 1, 0), (0, 1, 0))), X.Pg(((0, 0, 0), (2, 0, 0), (0, 2, 0))),
          X.Pg(((1, 0, 0), (1, 1, 0), (1, 1, 1), (1, 0, 1))), X.Pg(((2, 0, 0), (0, 2, 0), (0, 0, 2))),
          X.Pg(((H, Q, 0), (1, Q, 0), (1, 3 * Q, 0), (H, 3 * Q, 0))), X.Pg(((1, H, -1), (1, H, 1), (3, H, 0))),
          # two coplanar bars crossing like a plus sign (overlap without any vertex of one inside the other)
          X.Pg(((-1, Q, 0), (3, Q, 0), (3, 3 * Q, 0), (-1, 3 * Q, 0))), X.Pg(((3 * Q, -1, 0), (5 * Q, -1, 0), (5 * Q, 2, 0), (3 * Q, 2, 0)))]
    P += [box, tet, X.xform(box, ((1, 0, 0), (0, 1, 0), (0, 0, 1)), 1, (1, H, H)),
          X.Ph(tuple(product((H, 1), (Q, 3 * Q), (Q, 3 * Q)))),
          # an elongated, not centrally symmetric body and a small box near its apex
          A.polyhedron('spire'), X.Ph(tuple(product((F(7, 8), F(9, 8)), (F(7, 8), F(9, 8)), (F(13, 2), 7)))),
          # coordinates -1 and -2 together (CPython hash(-1) == hash(-2)): a unit cube between z=-2 and z=-1 and its two face planes
          X.Ph(tuple(product((0, 1), (0, 1), (-2, -1)))), X.Pl((0, 0, -1), (0, 0, 1)), X.Pl((0, 0, -2), (0, 0, 1)),
          X.Pg(((-1, 0, -1), (2, 0, -1), (2, 2, -1), (-1, 2, -1)))]
    # a box with one point inside and one outside whose coordinates differ only by -1 against -2 (equal CPython hashes), and
    # the segment between them: an answer remembered for one point must not serve the other (w6_C12_3)
    # (Point.__hash__ also hashes the products xy, yz, zx: they collide as well when the other coordinates are 1)
    P += [X.Ph(tuple(product((F(-3, 2), 1), (0, 2), (0, 2)))), X.Pt((-1, 1, 1)), X.Pt((-2, 1, 1)), X.Sg((-1, 1, 1), (-2, 1, 1))]
    # half-lines in the plane z=0 whose carrier line x+y=0 touches the polygons there in the single vertex (0,0,0): one pointing away
    # from it (disjoint from the polygons although its carrier is not), one pointing at it (w6_C12_2)
    P += [X.Hl((1, -1, 0), (1, -1, 0)), X.Hl((1, -1, 0), (-1, 1, 0))]
    return P


def quick_pool():
    P = pool()
    # every second object plus all bodies
    return [o for i, o in enumerate(P) if i % 2 == 0 or o[0] in X.BODY or i >= len(P) - 6]


def vertex_viols(fam, a, b, la, lb, r, e, path):
    """every vertex / endpoint of the result lies in both operands (library membership)."""
    if e is None or isinstance(r, lib.Raised) or r is None:
        return []
    k = e[0]
    if k == 'Point':
        pts = [r]
    elif k == 'Segment':
        pts = [r.start_point, r.end_point]
    elif k == 'HalfLine':
        pts = [r.point]
    elif k == 'ConvexPolygon':
        pts = list(r.points)
    elif k == 'ConvexPolyhedron':
        pts = list(r.point_set)
    else:
        return []
    out = []
    for lo, name in ((la, a[0]), (lb, b[0])):
        for p in pts:
            if isinstance(lo, Point):
                ok = lib.call(lambda: p == lo)
            else:
                ok = lib.call(lambda: p in lo)
            if ok is not True:
                out.append(Viol('C12|%s|result-vertex-not-in-operand|%s|%s,%s' % (fam.split('/')[0], path, a[0], b[0]), core.enc((a, b)), True,
                                lib.describe(ok), 'a vertex of intersection(%s,%s) is not `in` the %s operand' % (a[0], b[0], name)))
                return out
    return out


def conform(fam, path, a, b, la, lb, e, cell, sc_fn):
    """execute the edge both ways on the implementation and compare with the model node."""
    viols = []
    for form, x, y, ex, ey in (('ab', la, lb, a, b), ('ba', lb, la, b, a)):
        r = lib.call(intersection, x, y)
        ok, why = lib.matches(r, e)
        if not ok:
            viols.append(Viol('C12|%s|%s|%s|%s|%s' % (fam.split('/')[0], path, form, cell, why), sc_fn(), core.enc(e), lib.describe(r),
                              '%s: intersection does not denote the model node (expected %s, got %s)' % (path, e and e[0], lib.tname(r))))
        else:
            viols += vertex_viols(fam, ex, ey, x, y, r, e, path)
    return viols


class Closure(Family):
    scene_timeout = 600.0

    def __init__(self, pose, objs, depth, chunk=1):
        self.name = 'closure/' + pose.name
        self.pose = pose
        self.objs = [pose(o) for o in objs]
        self.depth = depth
        n = len(self.objs)
        self._shards = [(i, j) for i in range(n) for j in range(n)]
        self.total = n * n * (1 + (2 * n if depth >= 2 else 0))

    def shards(self):
        return self._shards

    def scenes(self, shard):
        i, j = shard
        yield ('L1', i, j)
        if self.depth >= 2:
            for k in range(len(self.objs)):
                yield ('L2', i, j, k)

    def enc_scene(self, s):
        objs = [self.objs[i] for i in s[1:]]
        return core.enc((s[0],) + tuple(objs))

    def eval(self, s):
        objs = [self.objs[i] for i in s[1:]]
        return eval_scene(self.name, (s[0],) + tuple(objs), self)

    def nontrivial(self, cell):
        return not cell.endswith('None')


_CACHE = {}


def level1(a, b):
    """(exact node, library value) of a∩b, cached per worker."""
    key = (a, b)
    if key not in _CACHE:
        if len(_CACHE) > 4:
            _CACHE.clear()
        e, cell, skip = model_inter(a, b)
        la, lb = lib.to_lib(a), lib.to_lib(b)
        r = lib.call(intersection, la, lb)
        _CACHE[key] = (e, cell, skip, la, lb, r)
    return _CACHE[key]


def eval_scene(fam, s, famobj=None):
    if s[0] == 'L1':
        a, b = s[1], s[2]
        e, cell, skip, la, lb, r = level1(a, b)
        if skip:
            return skip, []
        cellname = 'L1|%s,%s|%s' % (a[0], b[0], 'None' if e is None else e[0])
        viols = conform(fam, 'a∩b', a, b, lib.to_lib(a), lib.to_lib(b), e, '%s,%s' % (a[0], b[0]), lambda: core.enc(s))
        if a == b:
            ok, why = lib.matches(r, a)
            if not ok:
                viols.append(Viol('C12|closure|idempotence|%s|%s' % (a[0], why), core.enc(s), core.enc(a), lib.describe(r), 'intersection(a,a) must denote a'))
        return cellname, viols
    a, b, c = s[1], s[2], s[3]
    e1, cell1, skip1, la, lb, r1 = level1(a, b)
    if skip1:
        return skip1, []
    ok, why = lib.matches(r1, e1)
    if not ok:
        return 'skip:level1-violation', []      # reported by the L1 scene
    if e1 is None:
        # None absorbs
        lc = lib.to_lib(c)
        viols = []
        for form, th in (('(a∩b)∩c', lambda: intersection(r1, lc)), ('c∩(a∩b)', lambda: intersection(lc, r1))):
            r = lib.call(th)
            if r is not None:
                viols.append(Viol('C12|closure|none-absorbs|%s|%s' % (form, lib.tname(r)), core.enc(s), None, lib.describe(r), 'None operand must give None'))
        return 'L2|%s,%s,%s|None-absorbs|None' % (a[0], b[0], c[0]), viols
    e2, cell2, skip2 = model_inter(e1, c)
    if skip2:
        return skip2, []
    lc = lib.to_lib(c)
    cellname = 'L2|%s,%s,%s|%s|%s' % (a[0], b[0], c[0], e1[0], 'None' if e2 is None else e2[0])
    viols = conform(fam, '(a∩b)∩c', e1, c, r1, lc, e2, '%s,%s,%s' % (a[0], b[0], c[0]), lambda: core.enc(s))
    return cellname, viols


def families(tier):
    if tier == 'quick':
        return [Closure(A.P0, pool(), 2), Closure(A.P1, quick_pool(), 2)]
    return [Closure(p, pool(), 2) for p in (A.P0, A.P1, A.P2, A.P3)]


def run(tier, seed):
    fams = families(tier)
    res = core.run_families('C12', fams, seed)
    triples = set()
    nodes = 0
    for fam, cells in res.cells.items():
        for c in cells:
            parts = c.split('|')
            if parts[0] == 'L2':
                triples.add(parts[1])
    res.extra['ordered_type_triples_covered'] = len(triples)
    res.states = sum(1 for fam, cells in res.cells.items() for c in cells)  # distinct (type tuple, node kind) classes
    res.extra['state_classes_note'] = 'states reported = distinct model node classes (operand type tuple x result kind); transitions = executed edges'
    res.transitions = res.evals
    res.traces = res.evals
    res.rule = ('pool of %d mutually related objects of all 7 types (per pose); level 1: all ordered pairs; level 2: every level-1 library value against every '
                'pool object in both argument orders (all ordered triples, both nestings); each executed edge must denote the exact model node and its '
                'vertices must be `in` both operands; non-trivial = non-empty result' % len(fams[0].objs))
    res.alphabets = {f.name: {'pool': len(f.objs), 'edges': f.total} for f in fams}
    return res


def replay(family, scene):
    s = core.dec(scene)
    _CACHE.clear()
    return eval_scene(family, s)[1]
