"""C20 — queries are pure and composite objects own their data.

E2-style exhaustive exploration on real objects:
 * purity: every query instance (every query kind x every ordered operand pair of a pool of
   objects of all types) must be a self-loop on the bit-exact snapshot of the whole pool and
   of all Geometry3D module globals; every ordered pair of query instances (depth 2) must
   leave the second answer identical to its answer on a fresh pool;
 * ownership: for each composite built from shared Points / Vectors / polygons, all
   sequences (to the stated depth) of mutations of the shared arguments, deep copies, and
   moves of the copy / the original; the composite never changes through its arguments and
   copies are independent."""
import copy
import sys
from fractions import Fraction as F
from itertools import product

import Geometry3D as G
from Geometry3D import (Point, Vector, Line, Plane, Segment, HalfLine, ConvexPolygon, ConvexPolyhedron, Pyramid,
                        Parallelogram, Parallelepiped, Circle, Cylinder, Cone, Sphere,
                        intersection, distance, angle, parallel, orthogonal, volume)

from .. import core, lib, exact as X, alphabet as A
from ..core import Viol
from ..snapshot import snapshot, values, observable
from .C07 import attrs, near

LEVEL = 'model_checking'
TECHNIQUE = 'exhaustive enumeration of query sequences and of mutation/copy histories on real objects with bit-exact object-graph snapshots as state'


def module_globals():
    out = {}
    for name, mod in sorted(sys.modules.items()):
        if name == 'Geometry3D' or name.startswith('Geometry3D.'):
            d = {}
            for k, v in vars(mod).items():
                if k.startswith('__'):
                    continue
                if isinstance(v, (int, float, str, bool, tuple, list, dict, set, frozenset)) or v is None:
                    d[k] = v
            out[name] = d
    return out


BUILDERS = {
    'Point#0': lambda: Point(1.0, 1.0, 0.0),
    'Point#1': lambda: Point(0.5, 0.5, 0.5),
    'Vector#0': lambda: Vector(1.0, 2.0, -1.0),
    'Vector#1': lambda: Vector(0.0, 0.0, 2.0),
    'Line#0': lambda: Line(Point(0.0, 0.0, 0.0), Vector(1.0, 1.0, 0.0)),
    'Line#1': lambda: Line(Point(1.0, 0.0, 1.0), Vector(0.0, 1.0, -1.0)),
    'Plane#0': lambda: Plane(Point(0.0, 0.0, 0.5), Vector(0.0, 0.0, 1.0)),
    'Plane#1': lambda: Plane(Point(1.0, 0.0, 0.0), Vector(1.0, 1.0, 1.0)),
    'Segment#0': lambda: Segment(Point(0.0, 0.0, 0.0), Point(2.0, 2.0, 0.0)),
    'Segment#1': lambda: Segment(Point(1.0, 0.0, 0.0), Point(1.0, 2.0, 2.0)),
    'HalfLine#0': lambda: HalfLine(Point(2.0, 2.0, 2.0), Vector(-1.0, -1.0, -1.0)),
    'HalfLine#1': lambda: HalfLine(Point(0.0, 1.0, 0.0), Vector(1.0, 0.0, 0.0)),
    # unit-length directions whose first non-zero component is negative
    'Line#2': lambda: Line(Point(2.0, 1.0, 3.0), Point(1.0, 1.0, 3.0)),
    'HalfLine#2': lambda: HalfLine(Point(1.0, 2.0, 3.0), Vector(0.0, 0.0, -1.0)),
    # two different coplanar triangles whose vertices differ by -1 <-> -2 (CPython hash(-1) == hash(-2))
    'ConvexPolygon#2': lambda: lib.to_lib(X.Pg(((-1, 0, 0), (4, 0, 0), (0, 4, 0)))),
    'ConvexPolygon#3': lambda: lib.to_lib(X.Pg(((-2, 0, 0), (4, 0, 0), (0, 4, 0)))),
    'ConvexPolygon#0': lambda: lib.to_lib(A.polygon('square')),
    'ConvexPolygon#1': lambda: lib.to_lib(A.P1(A.polygon('triangle'))),
    'ConvexPolyhedron#0': lambda: lib.to_lib(A.polyhedron('tetrahedron')),
    # a tetrahedron glued to #0 along a face (three shared vertices, another apex): == is False and must not touch either operand
    'ConvexPolyhedron#2': lambda: lib.to_lib(X.Ph(tuple(A.POLYHEDRA['tetrahedron'][:3]) + (tuple(-c - 1 for c in A.POLYHEDRA['tetrahedron'][3]),))),
    'ConvexPolyhedron#1': lambda: lib.to_lib(X.xform(A.polyhedron('box'), ((1, 0, 0), (0, 1, 0), (0, 0, 1)), 1, (F(1, 2), F(1, 2), F(-1, 2)))),
}


def make_pool():
    return {k: lib.construct(k, mk) for k, mk in BUILDERS.items()}


GEO = ('Point', 'Line', 'Plane', 'Segment', 'HalfLine', 'ConvexPolygon', 'ConvexPolyhedron')
DIST = {('Point', 'Point'), ('Point', 'Line'), ('Line', 'Point'), ('Line', 'Line'), ('Point', 'Plane'), ('Plane', 'Point'), ('Line', 'Plane'), ('Plane', 'Line')}
ANG = {('Line', 'Line'), ('Line', 'Plane'), ('Plane', 'Line'), ('Plane', 'Plane'), ('Vector', 'Vector')}
IN = {('Point', t) for t in ('Line', 'HalfLine', 'Segment', 'Plane', 'ConvexPolygon', 'ConvexPolyhedron')} | \
     {('Segment', t) for t in ('Line', 'HalfLine', 'Segment', 'Plane', 'ConvexPolygon', 'ConvexPolyhedron')} | \
     {('HalfLine', t) for t in ('Line', 'HalfLine', 'Plane')} | {('Line', 'Plane'), ('ConvexPolygon', 'Plane'), ('ConvexPolygon', 'ConvexPolyhedron')}


def tn(name):
    return name.split('#')[0]


def query_instances(names):
    qs = []
    for a in names:
        ta = tn(a)
        qs.append(('hash', a))
        qs.append(('repr', a))
        for m in ('length', 'area', 'volume'):
            if (m == 'length' and ta in ('Segment', 'ConvexPolygon', 'ConvexPolyhedron', 'Vector')) or \
               (m == 'area' and ta in ('ConvexPolygon', 'ConvexPolyhedron')) or (m == 'volume' and ta == 'ConvexPolyhedron'):
                qs.append((m, a))
        if ta == 'ConvexPolyhedron':
            qs.append(('volume()', a))
        for b in names:
            tb = tn(b)
            if ta in GEO and tb in GEO:
                qs.append(('intersection', a, b))
                if ta != 'Point':
                    qs.append(('intersection-method', a, b))
            if (ta, tb) in IN:
                qs.append(('in', a, b))
            if (ta, tb) in DIST:
                qs.append(('distance', a, b))
            if (ta, tb) in ANG:
                qs.append(('angle', a, b))
                qs.append(('parallel', a, b))
                qs.append(('orthogonal', a, b))
            if ta == tb:
                qs.append(('eq', a, b))
    return qs


def run_query(pool, q):
    op = q[0]
    a = pool[q[1]]
    b = pool[q[2]] if len(q) > 2 else None
    if op == 'hash':
        return lib.call(hash, a)
    if op == 'repr':
        return lib.call(repr, a)
    if op in ('length', 'area', 'volume'):
        return lib.call(getattr(a, op))
    if op == 'volume()':
        return lib.call(volume, a)
    if op == 'intersection':
        return lib.call(intersection, a, b)
    if op == 'intersection-method':
        return lib.call(a.intersection, b)
    if op == 'in':
        return lib.call(lambda: a in b)
    if op == 'distance':
        return lib.call(distance, a, b)
    if op == 'angle':
        return lib.call(angle, a, b)
    if op == 'parallel':
        return lib.call(parallel, a, b)
    if op == 'orthogonal':
        return lib.call(orthogonal, a, b)
    if op == 'eq':
        return lib.call(lambda: a == b)
    raise core.HarnessError('bad query')


def answer(r):
    """representation-independent, rounding-tolerant form of a query answer (floats rounded
    to 9 significant decimals: sums over id-ordered sets may differ in the last bits)."""
    if isinstance(r, lib.Raised):
        return repr(r)
    c = lib.canon(r)

    def rnd(x):
        if isinstance(x, bool) or x is None or isinstance(x, (int, str)):
            return x
        if isinstance(x, float):
            return float('%.9g' % x)
        if isinstance(x, (list, tuple)):
            return [rnd(y) for y in x]
        return repr(x)
    return repr(rnd(c))


def full_snapshot(pool):
    return observable((pool, module_globals()))


def diff_names(pool, fresh):
    bad = []
    for k in pool:
        if observable(pool[k]) != observable(fresh[k]):
            bad.append(k)
    return bad


def pool_for(tier):
    names = list(BUILDERS) if tier != 'quick' else [n for n in BUILDERS if n.endswith('#0') or tn(n) in ('Point', 'Segment') or n in ('Line#2', 'HalfLine#2', 'ConvexPolygon#2', 'ConvexPolygon#3', 'ConvexPolyhedron#2')]
    return names


_BASE = None


def _base_job(arg):
    """answer of one query on a fresh pool in a fresh process (no other query has run in it)."""
    tier, qi = arg
    names = pool_for(tier)
    qs = query_instances(names)
    q = qs[qi]
    pool = {k: lib.construct(k, BUILDERS[k]) for k in set(q[1:])}
    return qi, answer(run_query(pool, q))


def base_answers(tier):
    """{query: answer} where every answer comes from a process in which it was the first and only query:
    module-level state left behind by earlier queries cannot influence it."""
    import multiprocessing
    names = pool_for(tier)
    qs = query_instances(names)
    ctx = multiprocessing.get_context('fork')
    out = {}
    with ctx.Pool(core.NPROC, maxtasksperchild=1) as pool:
        for qi, a in pool.imap_unordered(_base_job, [(tier, i) for i in range(len(qs))], chunksize=1):
            out[qs[qi]] = a
    return out


def _purity_job(arg):
    """depth 1 for the q1 chunk and depth 2 for every (q1 in chunk, q2)."""
    tier, i0, i1 = arg
    names = pool_for(tier)
    mk = lambda: {k: v for k, v in make_pool().items() if k in names}
    pool = mk()
    s0 = full_snapshot(pool)
    qs = query_instances(names)
    viols = []
    transitions = 0
    base_ans = _BASE
    pairs = 0
    for q1 in qs[i0:i1]:
        # depth 1
        r = run_query(pool, q1)
        transitions += 1
        a1 = answer(r)
        if a1 != base_ans[q1]:
            viols.append(Viol('C20|order|%s|answer-differs-from-first-ever-answer' % q1[0], core.enc(('order', q1, q1)), base_ans[q1][:300], a1[:300],
                              'answer of %r in a process that ran other queries before differs from its answer as the first query of a process' % (q1,), family='purity'))
        s1 = full_snapshot(pool)
        if s1 != s0:
            fresh = mk()
            who = diff_names(pool, fresh) or ['module globals']
            viols.append(Viol('C20|purity|%s|%s|operand-or-global-mutated' % (q1[0], ','.join(tn(x) for x in q1[1:])), core.enc(('purity', q1)),
                              'pool snapshot unchanged', 'changed: %s' % who, 'query %r mutated %s' % (q1, who), family='purity'))
            pool = fresh
            s0 = full_snapshot(pool)
        for q2 in qs:
            if tier == 'quick' and not (set(q1[1:]) & set(q2[1:])) and not (q1[0] == q2[0] and len(q1) == 2 and len(q2) == 2):
                continue
            pairs += 1
            run_query(pool, q1)
            r2 = run_query(pool, q2)
            transitions += 2
            a2 = answer(r2)
            s1 = full_snapshot(pool)
            dirty = s1 != s0
            if a2 != base_ans[q2]:
                viols.append(Viol('C20|order|%s-after-%s|answer-depends-on-earlier-query' % (q2[0], q1[0]), core.enc(('order', q1, q2)),
                                  base_ans[q2][:300], a2[:300], 'answer of %r changes when %r ran before' % (q2, q1), family='purity'))
                dirty = True
            elif dirty:
                viols.append(Viol('C20|purity|%s;%s|operand-or-global-mutated' % (q1[0], q2[0]), core.enc(('order', q1, q2)),
                                  'pool snapshot unchanged', 'changed', 'sequence %r, %r mutated the pool' % (q1, q2), family='purity'))
            if dirty:
                pool = mk()
                s0 = full_snapshot(pool)
    return transitions, pairs, viols, len(set(base_ans.values()))


def purity(tier, res, seed=0):
    import multiprocessing
    global _BASE
    names = pool_for(tier)
    qs = query_instances(names)
    _BASE = base_answers(tier)
    step = max(1, len(qs) // 64)
    jobs = [(tier, i, min(i + step, len(qs))) for i in range(0, len(qs), step)]
    k = seed % len(jobs)
    jobs = jobs[k:] + jobs[:k]
    ctx = multiprocessing.get_context('fork')
    transitions = pairs = 0
    distinct = 0
    with ctx.Pool(core.NPROC) as pool:
        for t, p_, viols, d in pool.imap_unordered(_purity_job, jobs):
            transitions += t
            pairs += p_
            distinct = max(distinct, d)
            for v in viols:
                res.add_viol(v)
    res.extra['purity'] = {'pool_objects': len(names), 'query_instances': len(qs), 'ordered_pairs': pairs, 'distinct_answers': distinct}
    if len(res.samples) < 10:
        res.samples.append({'purity-history': [list(qs[7]), list(qs[-3])]})
    return 1, transitions


# --------------------------------------------------------------------------- in-place coordinate mutation between queries

COORD_MUTS = {
    'Point': [('setattr-x', lambda p: setattr(p, 'x', 2.0), lambda c: [2.0, c[1], c[2]]),
              ('setitem-1', lambda p: p.__setitem__(1, 0.25), lambda c: [c[0], 0.25, c[2]]),
              ('setitem-2', lambda p: p.__setitem__(2, 1.0), lambda c: [c[0], c[1], 1.0])],
    'Vector': [('setitem-0', lambda v: v.__setitem__(0, -2.0), lambda c: [-2.0, c[1], c[2]]),
               ('setitem-1', lambda v: v.__setitem__(1, 2.0), lambda c: [c[0], 2.0, c[2]]),
               ('setitem-2', lambda v: v.__setitem__(2, 0.0), lambda c: [c[0], c[1], 0.0])],
}


def _mut_job(arg):
    """q1 ; mutate a coordinate of operand o in place ; q2  ==  q2 on an o constructed with the new coordinates."""
    tier, oname = arg
    names = pool_for(tier)
    t = tn(oname)
    qs = [q for q in query_instances(names) if oname in q[1:]]
    viols = []
    n = 0
    cls = Point if t == 'Point' else Vector
    for mname, mut, newc in COORD_MUTS[t]:
        for q1 in qs:
            for q2 in qs:
                need = set(q1[1:]) | set(q2[1:])
                pool = {k: lib.construct(k, BUILDERS[k]) for k in need}
                run_query(pool, q1)
                c0 = list(lib._c(pool[oname]))
                lib.call(mut, pool[oname])
                a2 = answer(run_query(pool, q2))
                pool2 = {k: lib.construct(k, BUILDERS[k]) for k in set(q2[1:])}
                pool2[oname] = cls(*newc(c0))
                exp = answer(run_query(pool2, q2))
                n += 1
                if a2 != exp:
                    viols.append(Viol('C20|mutation|%s.%s|%s-then-%s|stale-answer-after-in-place-mutation' % (t, mname, q1[0], q2[0]),
                                      core.enc(('mutation', oname, mname, q1, q2)), exp[:300], a2[:300],
                                      'after %r, %s %s, query %r answers as if the coordinates had not changed (or otherwise differs from a freshly '
                                      'constructed operand)' % (q1, oname, mname, q2), family='mutation'))
    return n, viols


def mutation_consistency(tier, res, seed=0):
    import multiprocessing
    names = pool_for(tier)
    objs = [n for n in names if tn(n) in ('Point', 'Vector')]
    ctx = multiprocessing.get_context('fork')
    trans = 0
    with ctx.Pool(min(core.NPROC, len(objs))) as pool:
        for n, viols in pool.imap_unordered(_mut_job, [(tier, o) for o in objs]):
            trans += n
            for v in viols:
                res.add_viol(v)
    res.extra['mutation_consistency'] = {'objects': objs, 'histories': trans}
    res.samples.append({'mutation-history': ['hash(Point#0)', 'Point#0.x = 2.0', 'Point#0 in Segment#0']})
    return trans


# --------------------------------------------------------------------------- queries before an in-place move

MOVE_VECS = ((0.5, -1.0, 2.0), (-2.0, 0.25, 1.0))


def move_history(oname, vi, q1, q2):
    """twin A: q1 ; o.move(v) ; q2      twin B: o.move(v) ; q2      (no attribute of o is read in between: a snapshot
    would itself be a query).  Returns the two answers."""
    out = []
    for with_q1 in (True, False):
        need = set(q2[1:]) | (set(q1[1:]) if with_q1 else set())
        pool = {k: lib.construct(k, BUILDERS[k]) for k in need}
        if with_q1:
            run_query(pool, q1)
        mv = lib.call(pool[oname].move, Vector(*MOVE_VECS[vi]))
        out.append(answer(run_query(pool, q2)) + (repr(mv) if isinstance(mv, lib.Raised) else ''))
    return out


def _move_job(arg):
    tier, oname = arg
    names = pool_for(tier)
    qs = [q for q in query_instances(names) if oname in q[1:]]
    viols = []
    n = 0
    for vi in range(len(MOVE_VECS) if tier != 'quick' else 1):
        for q1 in qs:
            for q2 in qs:
                if tier == 'quick' and q2[0] in ('repr', 'eq') :
                    continue
                a, b = move_history(oname, vi, q1, q2)
                n += 1
                if a != b:
                    viols.append(Viol('C20|move-order|%s|%s-before-move-changes-%s' % (tn(oname), q1[0], q2[0]), core.enc(('move-order', oname, vi, q1, q2)),
                                      b[:300], a[:300], 'after %s.move(v), %r answers differently depending on whether %r ran before the move' % (oname, q2, q1),
                                      family='move-order'))
    return n, viols


def move_order(tier, res, seed=0):
    import multiprocessing
    names = pool_for(tier)
    objs = [n for n in names if tn(n) in GEO]
    ctx = multiprocessing.get_context('fork')
    trans = 0
    with ctx.Pool(min(core.NPROC, len(objs))) as pool:
        for n, viols in pool.imap_unordered(_move_job, [(tier, o) for o in objs]):
            trans += n
            for v in viols:
                res.add_viol(v)
    res.extra['move_order'] = {'objects': objs, 'twin_histories': trans, 'move_vectors': list(MOVE_VECS[:len(MOVE_VECS) if tier != 'quick' else 1])}
    res.samples.append({'move-order-history': ['Point#0 in Segment#0', 'Segment#0.move(v)', 'intersection(Segment#0, Line#0)', 'vs the same without the first query']})
    return trans


# --------------------------------------------------------------------------- ownership

def tetra_faces():
    K = A.polyhedron('tetrahedron')
    return [tuple(c) for n, c in X.facets_of(K)]


RECIPES = {
    'Segment(P,P)': (lambda: [Point(0.0, 0.0, 0.0), Point(2.0, 1.0, 0.0)], lambda a: Segment(a[0], a[1])),
    'Segment(P,V)': (lambda: [Point(0.0, 1.0, 0.0), Vector(2.0, 1.0, 1.0)], lambda a: Segment(a[0], a[1])),
    'HalfLine(P,P)': (lambda: [Point(1.0, 0.0, 0.0), Point(2.0, 1.0, 0.0)], lambda a: HalfLine(a[0], a[1])),
    'HalfLine(P,V)': (lambda: [Point(1.0, 0.0, 1.0), Vector(0.0, 1.0, 2.0)], lambda a: HalfLine(a[0], a[1])),
    'Line(P,P)': (lambda: [Point(1.0, 0.0, 1.0), Point(0.0, 1.0, 2.0)], lambda a: Line(a[0], a[1])),
    'ConvexPolygon': (lambda: [Point(0.0, 0.0, 0.0), Point(2.0, 0.0, 0.0), Point(2.0, 2.0, 0.0), Point(0.0, 2.0, 0.0)], lambda a: ConvexPolygon(tuple(a))),
    'ConvexPolygon(list)': (lambda: [Point(0.0, 0.0, 1.0), Point(2.0, 0.0, 1.0), Point(0.0, 2.0, 1.0)], lambda a: ConvexPolygon(list(a))),
    'ConvexPolyhedron': (lambda: [ConvexPolygon(tuple(lib.P(p) for p in cyc)) for cyc in tetra_faces()], lambda a: ConvexPolyhedron(tuple(a))),
    'Parallelogram': (lambda: [Point(0.0, 0.0, 0.0), Vector(1.0, 0.0, 0.0), Vector(0.0, 1.0, 1.0)], lambda a: Parallelogram(a[0], a[1], a[2])),
    'Parallelepiped': (lambda: [Point(0.0, 0.0, 0.0), Vector(1.0, 0.0, 0.0), Vector(0.0, 1.0, 0.0), Vector(0.0, 1.0, 2.0)],
                       lambda a: Parallelepiped(a[0], a[1], a[2], a[3])),
    'Circle': (lambda: [Point(0.0, 1.0, 0.0), Vector(0.0, 1.0, 1.0)], lambda a: Circle(a[0], a[1], 1.5, 5)),
    'Cylinder': (lambda: [Point(0.0, 1.0, 0.0), Vector(0.0, 1.0, 1.0)], lambda a: Cylinder(a[0], 1.5, a[1], 4)),
    'Cone': (lambda: [Point(0.0, 1.0, 0.0), Vector(1.0, 1.0, 0.0)], lambda a: Cone(a[0], 1.5, a[1], 4)),
    'Sphere': (lambda: [Point(0.0, 1.0, 0.0)], lambda a: Sphere(a[0], 1.0, 4, 2)),
}

MOVE_V = (Vector(1.0, 2.0, -1.0), Vector(-0.5, 0.25, 0.0))


def arg_mutations(arg):
    """list of (label, function mutating arg in place)."""
    if isinstance(arg, Point):
        return [('move', lambda p: p.move(Vector(1.0, -2.0, 0.5))), ('setitem', lambda p: p.__setitem__(1, 7.5)),
                ('setattr', lambda p: setattr(p, 'x', -3.25))]
    if isinstance(arg, Vector):
        return [('setitem', lambda v: v.__setitem__(2, 4.5)), ('setitem0', lambda v: v.__setitem__(0, -1.5))]
    if isinstance(arg, ConvexPolygon):
        return [('move', lambda g: g.move(Vector(0.0, 0.0, 3.0)))]
    return []


def arg_battery(a):
    """observable value and behaviour of a constructor argument."""
    out = [repr(observable(a))]
    if isinstance(a, Point):
        out.append(repr([float(c) for c in a.pv()]))
        out.append(repr(hash(a)))
        out.append(repr(a.distance(Point(0.25, -1.0, 2.0))))
        out.append(repr(list(lib._c(Line(a, Vector(1.0, 2.0, 3.0)).sv))))
    elif isinstance(a, Vector):
        out.append(repr(float(a.length())))
        out.append(repr(hash(a)))
    elif isinstance(a, ConvexPolygon):
        out.append(repr(lib.canon(a)))
        out.append(repr(round(a.area(), 9)))
    return out


def comp_battery(o):
    """representation-independent observation of a composite."""
    out = [('type', type(o).__name__), ('canon', lib.canon(o))]
    a = lib.call(lambda: attrs(o))
    out.append(('attrs', repr(a) if isinstance(a, lib.Raised) else a))
    for m in ('length', 'area', 'volume'):
        if hasattr(o, m):
            out.append((m, lib.describe(lib.call(getattr(o, m)))))
    return out


def ids_of(o):
    """ids of all mutable sub-objects."""
    seen = set()

    def walk(x):
        if isinstance(x, (int, float, str, bool, F)) or x is None:
            return
        if id(x) in seen:
            return
        seen.add(id(x))
        if isinstance(x, (list, tuple, set, frozenset)):
            for e in x:
                walk(e)
        elif isinstance(x, dict):
            for k, v in x.items():
                walk(k)
                walk(v)
        elif hasattr(x, '__dict__'):
            for v in vars(x).values():
                walk(v)
    walk(o)
    return seen


def ownership_letters(nargs_muts):
    letters = [('A', j, k) for j, muts in enumerate(nargs_muts) for k in range(len(muts))]
    letters += [('D',), ('Mc', 0), ('Mc', 1), ('Mo', 0)]
    return letters


def run_history(rname, hist):
    """returns list of (symptom, detail)."""
    mkargs, mk = RECIPES[rname]
    args = mkargs()
    comp = lib.construct(rname, lambda: mk(args))
    pristine = lib.construct(rname, lambda: mk(mkargs()))
    # a sibling built from the very same caller arguments: each composite owns its data, so nothing done to one of them
    # may show in the other (w6_C20_3: two Lines built on one Point shared its memoised position vector)
    sib = lib.construct(rname, lambda: mk(args))
    problems = []
    t_o = [0.0, 0.0, 0.0]
    cp = None
    t_c = None
    cp_ref = None
    for ev in hist:
        before = observable(comp)
        before_cp = observable(cp) if cp is not None else None
        before_sib = observable(sib)
        if ev[0] == 'A':
            muts = arg_mutations(args[ev[1]])
            muts[ev[2]][1](args[ev[1]])
            if observable(comp) != before:
                problems.append(('composite-changed-by-argument-mutation:' + muts[ev[2]][0], 'arg %d' % ev[1]))
            if cp is not None and observable(cp) != before_cp:
                problems.append(('copy-changed-by-argument-mutation', 'arg %d' % ev[1]))
        elif ev[0] == 'D':
            cp = lib.call(copy.deepcopy, comp)
            if isinstance(cp, lib.Raised):
                problems.append(('deepcopy-raises:' + cp.cls, repr(cp)))
                cp = None
                continue
            e = lib.call(lambda: (cp == comp) and (comp == cp))
            if e is not True:
                problems.append(('deepcopy-not-equal', lib.describe(e)))
            if observable(cp) != observable(comp):
                problems.append(('deepcopy-value-differs', ''))
            if ids_of(cp) & ids_of(comp):
                problems.append(('deepcopy-shares-mutable-state', ''))
            t_c = list(t_o)
            if observable(comp) != before:
                problems.append(('deepcopy-mutated-original', ''))
        elif ev[0] == 'Mc':
            if cp is None:
                continue
            v = MOVE_V[ev[1]]
            r = lib.call(cp.move, copy.deepcopy(v))
            if isinstance(r, lib.Raised):
                problems.append(('copy-move-raises:' + r.cls, repr(r)))
            t_c = [t_c[i] + v[i] for i in range(3)]
            if observable(comp) != before:
                problems.append(('original-changed-by-moving-the-copy', ''))
        elif ev[0] == 'Mo':
            v = MOVE_V[ev[1]]
            r = lib.call(comp.move, copy.deepcopy(v))
            if isinstance(r, lib.Raised):
                problems.append(('move-raises:' + r.cls, repr(r)))
            t_o = [t_o[i] + v[i] for i in range(3)]
            if cp is not None and observable(cp) != before_cp:
                problems.append(('copy-changed-by-moving-the-original', ''))
            if observable(sib) != before_sib:
                problems.append(('sibling-built-from-the-same-arguments-changed-by-moving-the-composite', ''))
    # the caller's arguments are the caller's: unless the history mutated them (A letters) they must still
    # look and behave like freshly made ones, whatever was done to the composite or its copies
    touched = {ev[1] for ev in hist if ev[0] == 'A'}
    for j, (arg, ref) in enumerate(zip(args, mkargs())):
        if j in touched:
            continue
        if arg_battery(arg) != arg_battery(ref):
            problems.append(('caller-argument-changed-by-operating-on-the-composite', 'arg %d (%s)' % (j, type(arg).__name__)))
            break
    # final: composite equals pristine moved by t_o; copy equals pristine moved by t_c
    for label, obj, t in (('composite', comp, t_o), ('copy', cp, t_c)):
        if obj is None:
            continue
        ref = lib.construct(rname, lambda: mk(mkargs()))
        if any(t):
            ref = lib.call(ref.move, Vector(*t))
            if isinstance(ref, lib.Raised):
                continue
        b1, b2 = comp_battery(obj), comp_battery(ref)
        for (l1, v1), (l2, v2) in zip(b1, b2):
            if not near(v1, v2):
                problems.append(('%s-differs-from-pristine:%s' % (label, l1), ''))
                break
    return problems


def histories(letters, depth):
    for n in range(1, depth + 1):
        for h in product(letters, repeat=n):
            # prune: copy moves before any deepcopy are no-ops
            yield h


_JOBS = None


def _own_job(arg):
    rname, i0, i1, depth = arg
    mkargs, mk = RECIPES[rname]
    letters = ownership_letters([arg_mutations(a) for a in mkargs()])
    out = []
    n = 0
    states = set()
    for idx, h in enumerate(histories(letters, depth)):
        if idx < i0:
            continue
        if idx >= i1:
            break
        n += 1
        try:
            probs = run_history(rname, h)
        except (lib.ConstructionFailed, lib.LibTimeout, core.HarnessError):
            raise
        except Exception as ex:  # noqa: library code raising on legal operations is a finding, harness code raising is not
            if not core._raised_in_library(ex):
                raise
            probs = [('library-raised:' + type(ex).__name__, str(ex)[:200])]
        for sym, det in probs:
            out.append(Viol('C20|ownership|%s|%s' % (rname, sym), core.enc(('ownership', rname, h)), 'composite owns its data', det,
                            '%s after %r: %s' % (rname, h, sym), family='ownership'))
    return rname, n, out


def ownership(tier, res, seed):
    import multiprocessing
    depth = 2 if tier == 'quick' else 3
    jobs = []
    total = 0
    for rname, (mkargs, mk) in RECIPES.items():
        letters = ownership_letters([arg_mutations(a) for a in mkargs()])
        n = sum(len(letters) ** k for k in range(1, depth + 1))
        d = depth
        heavy = rname in ('ConvexPolyhedron', 'Parallelepiped', 'Cylinder', 'Cone', 'Sphere')
        if heavy and tier != 'quick' and n > 3000:
            d = depth - 1
            n = sum(len(letters) ** k for k in range(1, d + 1))
        total += n
        step = max(20, n // 24)
        for i in range(0, n, step):
            jobs.append((rname, i, min(i + step, n), d))
        res.extra.setdefault('ownership', {})[rname] = {'letters': len(letters), 'depth': d, 'histories': n}
    k = seed % len(jobs)
    jobs = jobs[k:] + jobs[:k]
    ctx = multiprocessing.get_context('fork')
    trans = 0
    with ctx.Pool(core.NPROC) as pool:
        for rname, n, viols in pool.imap_unordered(_own_job, jobs):
            trans += n
            for v in viols:
                res.add_viol(v)
    res.samples.append({'ownership-history': ['Segment(P,P)', [['A', 0, 0], ['D'], ['Mc', 1]]]})
    return len(RECIPES), trans


def run(tier, seed):
    res = core.Result('C20')
    s1, t1 = purity(tier, res, seed)
    s2, t2 = ownership(tier, res, seed)
    t3 = mutation_consistency(tier, res, seed)
    t4 = move_order(tier, res, seed)
    res.states = s1 + s2
    res.transitions = t1 + t2 + 3 * t3 + 5 * t4
    res.traces = t1 + t2 + t3 + 2 * t4
    res.evals = t1 + t2 + 3 * t3 + 5 * t4
    res.nontrivial = res.extra['purity']['distinct_answers']
    res.rule = ('purity: states = bit-exact snapshots of (pool of objects of all types, all Geometry3D module globals) - every query instance and every '
                'ordered pair of query instances (quick: pairs sharing an operand) is executed and must be a self-loop with history-independent answers; '
                'ownership: every history up to the stated depth over {each in-place mutation of each shared constructor argument, deepcopy, move copy, move '
                'original} for each composite recipe, value snapshots compared after every step; states counted = 1 pool state + 1 per composite recipe '
                '(all transitions must be self-loops on the observed value); mutation consistency: for every Point / Vector of the pool, every (query, in-place coordinate '
                'assignment, query) history must answer like a freshly constructed operand; move order: for every geometry object o of the pool and every pair '
                '(q1, q2) of query instances involving o, q2 after o.move(v) must answer the same whether or not q1 ran before the move')
    lib.assert_default_tolerance()
    return res


def replay(family, scene):
    sc = core.dec(scene)
    if sc[0] == 'mutation':
        oname, mname, q1, q2 = sc[1], sc[2], tuple(sc[3]), tuple(sc[4])
        t = tn(oname)
        mut, newc = next((m, nc) for n_, m, nc in COORD_MUTS[t] if n_ == mname)
        pool = {k: lib.construct(k, BUILDERS[k]) for k in set(q1[1:]) | set(q2[1:])}
        run_query(pool, q1)
        c0 = list(lib._c(pool[oname]))
        mut(pool[oname])
        a2 = answer(run_query(pool, q2))
        pool2 = {k: lib.construct(k, BUILDERS[k]) for k in set(q2[1:])}
        pool2[oname] = (Point if t == 'Point' else Vector)(*newc(c0))
        exp = answer(run_query(pool2, q2))
        return [] if a2 == exp else [Viol('C20|mutation|%s.%s|%s-then-%s|stale-answer-after-in-place-mutation' % (t, mname, q1[0], q2[0]), scene, exp[:300], a2[:300], '')]
    if sc[0] == 'move-order':
        a, b = move_history(sc[1], sc[2], tuple(sc[3]), tuple(sc[4]))
        return [] if a == b else [Viol('C20|move-order|%s|%s-before-move-changes-%s' % (tn(sc[1]), sc[3][0], sc[4][0]), scene, b[:300], a[:300], '')]
    if sc[0] == 'ownership':
        probs = run_history(sc[1], tuple(tuple(x) for x in sc[2]))
        return [Viol('C20|ownership|%s|%s' % (sc[1], sym), scene, 'composite owns its data', det, sym) for sym, det in probs]
    pool = make_pool()
    s0 = full_snapshot(pool)
    out = []
    if sc[0] == 'purity':
        run_query(pool, tuple(sc[1]))
        if full_snapshot(pool) != s0:
            out.append(Viol('C20|purity|%s|mutated' % sc[1][0], scene, 'unchanged', 'changed', 'query mutated the pool'))
    else:
        q1, q2 = tuple(sc[1]), tuple(sc[2])
        base = answer(run_query(make_pool(), q2))
        run_query(pool, q1)
        a2 = answer(run_query(pool, q2))
        if a2 != base:
            out.append(Viol('C20|order|%s-after-%s|answer-depends-on-earlier-query' % (q2[0], q1[0]), scene, base[:300], a2[:300], ''))
        if full_snapshot(pool) != s0:
            out.append(Viol('C20|purity|%s;%s|mutated' % (q1[0], q2[0]), scene, 'unchanged', 'changed', ''))
    return out
