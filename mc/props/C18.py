"""C18 — Vector arithmetic is exact component algebra and preserves numeric type.

(i) E1 grid: all ordered pairs of integer vectors of {-2..2}^3 x scalars, in each coordinate
type, compared exactly with the component formulas; (ii) ring run: the same operations once
with polynomial indeterminates pushed through the real code (the grid then decides the
all-inputs claim: degree <= 2 per variable observed, 5 grid values per variable);
(iii) all 5^3 type mixtures per constructor call; (iv) length / normalized / angle."""
import math
from decimal import Decimal as D
from fractions import Fraction as F
from itertools import product

from Geometry3D import Vector, Point, x_unit_vector, y_unit_vector, z_unit_vector

from .. import core, lib, exact as X, alphabet as A
from ..core import Viol, Family
from ..poly import Poly, ForbiddenOp

LEVEL = 'exploration'
TECHNIQUE = 'bounded-exhaustive grid enumeration on the real code vs textbook component formulas, plus one symbolic-indeterminate execution observing branch-freeness'

GRID = [v for v in product(range(-2, 3), repeat=3)]
TYPES = {'int': int, 'Fraction': F, 'Decimal': D, 'float': float}
SCALARS = (-2, -1, 0, 1, 2, F(1, 2))
RANK = {'user': 0, 'Fraction': 1, 'Decimal': 2, 'float': 3, 'int': 4}


def comps(v):
    return [v[0], v[1], v[2]]


def same_exact(got, exp, T=None):
    """exact equality of component lists including component types."""
    if len(got) != len(exp):
        return False
    for g, e in zip(got, exp):
        if type(g) is not type(e):
            return False
        if isinstance(g, Poly):
            if not g.same(e):
                return False
        elif g != e:
            return False
    return True


def tdesc(xs):
    return [type(x).__name__ + ':' + str(x) for x in xs]


def grid_ops(T, a, b, conv):
    """yield (opname, thunk, expected components or scalar) over component type T."""
    ca, cb = [conv(x) for x in a], [conv(x) for x in b]
    va, vb = Vector(*ca), Vector(*cb)
    yield 'add', (lambda: comps(va + vb)), [x + y for x, y in zip(ca, cb)]
    yield 'sub', (lambda: comps(va - vb)), [x - y for x, y in zip(ca, cb)]
    yield 'neg', (lambda: comps(-va)), [x * -1 for x in ca]
    yield 'dot', (lambda: [va * vb]), [sum(x * y for x, y in zip(ca, cb))]
    yield 'cross', (lambda: comps(va.cross(vb))), [ca[1] * cb[2] - ca[2] * cb[1], ca[2] * cb[0] - ca[0] * cb[2], ca[0] * cb[1] - ca[1] * cb[0]]
    yield 'from-points', (lambda: comps(Vector(Point(*ca), Point(*cb)))), [y - x for x, y in zip(ca, cb)]
    yield 'pv', (lambda: comps(Point(*ca).pv())), list(ca)
    yield 'index', (lambda: [va[0], va[1], va[2]]), list(ca)
    yield 'list-ctor', (lambda: comps(Vector(list(ca)))), list(ca)

    def list_owned():
        lst = list(ca)
        v = Vector(lst)
        w = Vector(lst)
        lst[0] = cb[0]
        lst[2] = cb[2]
        w[1] = cb[1]
        return comps(v) + lst + [w[0], w[2]]
    yield 'list-ctor-owns-its-coordinates', list_owned, list(ca) + [cb[0], ca[1], cb[2]] + [ca[0], ca[2]]
    yield 'point-move', (lambda: comps(Point(*ca).move(vb).pv())), [x + y for x, y in zip(ca, cb)]


def eval_grid(fam, tname, a, b):
    T = TYPES[tname]
    conv = (lambda x: T(x))
    viols = []
    sc = None
    cell = 'grid|' + tname

    def bad(op, sym, exp, got):
        nonlocal sc
        if sc is None:
            sc = core.enc(('grid', tname, a, b))
        viols.append(Viol('C18|grid|%s|%s|%s' % (tname, op, sym), sc, tdesc(exp) if isinstance(exp, list) else exp,
                          got if isinstance(got, (str, list)) else lib.describe(got), '%s over %s' % (op, tname)))

    results = {}
    for op, th, exp in grid_ops(T, a, b, conv):
        r = lib.call(th)
        if isinstance(r, lib.Raised):
            bad(op, 'raises:' + r.cls, exp, repr(r))
        elif not same_exact(r, exp):
            bad(op, 'wrong-type' if [x == y for x, y in zip(r, exp)] == [True] * len(exp) else 'wrong-value', exp, tdesc(r))
        else:
            results[op] = r
    ca = [conv(x) for x in a]
    # scalar multiplication from either side (only once per a: when b is the first grid vector)
    if b == GRID[0]:
        va = Vector(*ca)
        for k in SCALARS:
            if tname == 'int' and isinstance(k, F):
                kk = 0.5
            elif tname == 'Decimal' and isinstance(k, F):
                kk = D('0.5')
            elif tname == 'float':
                kk = float(k)
            elif tname == 'Fraction':
                kk = F(k)
            else:
                kk = T(k) if not isinstance(k, F) else k
            exp = [x * kk for x in ca]
            for op, th in (('mul', lambda: comps(va * kk)), ('rmul', lambda: comps(kk * va))):
                r = lib.call(th)
                if isinstance(r, lib.Raised):
                    bad(op, 'raises:' + r.cls, exp, repr(r))
                elif not same_exact(r, exp):
                    bad(op, 'wrong-value-or-type', exp, tdesc(r))
    # identities (exact types only)
    if tname != 'float' and 'cross' in results and 'dot' in results:
        cb = [conv(x) for x in b]
        c = results['cross']
        if sum(x * y for x, y in zip(ca, c)) != 0:
            bad('identity', 'a.(axb)!=0', 0, tdesc(c))
        r2 = lib.call(lambda: comps(Vector(*cb).cross(Vector(*ca))))
        if not isinstance(r2, lib.Raised) and [-x for x in r2] != c:
            bad('identity', 'axb!=-(bxa)', tdesc(c), tdesc(r2))
        if sum(x * x for x in c) != sum(x * x for x in ca) * sum(x * x for x in cb) - results['dot'][0] ** 2:
            bad('identity', 'lagrange', None, tdesc(c))
    return cell, viols


def eval_ring(fam):
    """one execution with indeterminates."""
    viols = []
    a = [Poly.var(0), Poly.var(1), Poly.var(2)]
    b = [Poly.var(3), Poly.var(4), Poly.var(5)]
    k = Poly.var(6)

    def bad(op, sym, got):
        viols.append(Viol('C18|ring|%s|%s' % (op, sym), core.enc(('ring',)), 'textbook polynomial', got, op))

    ops = list(grid_ops(Poly, a, b, lambda x: x))
    va = Vector(*a)
    ops.append(('mul', lambda: comps(va * k), [x * k for x in a]))
    ops.append(('rmul', lambda: comps(k * va), [k * x for x in a]))
    ops.append(('mul-int', lambda: comps(va * 3), [x * 3 for x in a]))
    maxdeg = 0
    for op, th, exp in ops:
        r = lib.call(th)
        if isinstance(r, lib.Raised):
            bad(op, 'raises:' + r.cls, repr(r))
            continue
        try:
            ok = same_exact(r, exp)
        except Exception as ex:
            ok = False
        if not ok:
            bad(op, 'wrong-polynomial-or-type', [repr(x) for x in r])
        else:
            for x in r:
                maxdeg = max([maxdeg] + x.degree_per_var())
    if maxdeg > 2:
        raise core.HarnessError('degree per variable %d > 2: the grid argument does not apply' % maxdeg)
    return 'ring|maxdeg%d' % maxdeg, viols


class UserNum(object):
    """user-defined numeric type for the promotion family."""

    def __init__(self, x):
        self.v = x.v if isinstance(x, UserNum) else F(x)

    def __format__(self, spec):
        # Point.__init__ eagerly formats its repr ('{:.2f}') for a debug log line
        return format(float(self.v), spec)


MAKE = {'int': lambda i: 2 + i, 'float': lambda i: 0.5 + i, 'Decimal': lambda i: D('1.5') + i, 'Fraction': lambda i: F(1, 2) + i,
        'user': lambda i: UserNum(F(7, 4) + i),
        # values that are not short binary fractions: promotion must keep the exact value of the float / Decimal
        'float*': lambda i: 0.1 + i, 'Decimal*': lambda i: D('0.1') + i, 'Fraction*': lambda i: F(1, 3) + i}


def eval_promo(fam, ctor, kinds):
    kinds0 = tuple(kinds)
    vals = [MAKE[k](i) for i, k in enumerate(kinds)]
    kinds = tuple(k.rstrip('*') for k in kinds)
    top = min(kinds, key=lambda k: RANK[k])
    want_t = {'int': int, 'float': float, 'Decimal': D, 'Fraction': F, 'user': UserNum}[top]
    cell = 'promotion|%s|%s' % (ctor, top)
    th = (lambda: comps(Vector(*vals))) if ctor == 'Vector' else ((lambda: comps(Vector(list(vals)))) if ctor == 'Vector-list' else (lambda: list(Point(*vals))))
    if ctor == 'Point':
        th = lambda: (lambda p: [p.x, p.y, p.z])(Point(*vals))
    r = lib.call(th)
    sc = core.enc(('promo', ctor, kinds0))
    if isinstance(r, lib.Raised):
        return cell, [Viol('C18|promotion|%s|%s|raises:%s' % (ctor, top, r.cls), sc, top, repr(r), 'mixed-type constructor raised')]
    viols = []
    for g, v in zip(r, vals):
        if type(g) is not want_t:
            viols.append(Viol('C18|promotion|%s|%s|wrong-type:%s' % (ctor, top, type(g).__name__), sc, top, tdesc(r) if top != 'user' else [type(x).__name__ for x in r],
                              'coordinates %s promoted to %s, expected %s' % (kinds, type(g).__name__, top)))
            break
        gv = g.v if isinstance(g, UserNum) else g
        vv = v.v if isinstance(v, UserNum) else v
        if F(gv) != F(vv):
            viols.append(Viol('C18|promotion|%s|%s|value-changed' % (ctor, top), sc, str(vv), str(gv), 'promotion changed a value'))
            break
    return cell, viols


def eval_metric(fam, tname, d, scale):
    """length / normalized / unit / angle for int, float, Fraction vectors."""
    if tname == 'int':
        v = [int(c * scale) for c in d]
    elif tname == 'Fraction':
        v = [F(c) * F(scale) for c in d]
    else:
        v = [float(c) * float(scale) for c in d]
    cell = 'metric|%s|%g' % (tname, float(scale))
    viols = []
    sc = None

    def bad(op, sym, exp, got):
        nonlocal sc
        if sc is None:
            sc = core.enc(('metric', tname, d, scale if not isinstance(scale, float) else F(scale)))
        viols.append(Viol('C18|metric|%s|%s|%s' % (tname, op, sym), sc, exp, lib.describe(got), '%s of %s-vector at scale %g' % (op, tname, float(scale))))

    V = Vector(*v)
    L = math.sqrt(float(sum(F(c) * F(c) for c in v)))
    l = lib.call(V.length)
    if isinstance(l, lib.Raised) or not lib.close_rel(l, L, 1e-12, 0):
        bad('length', 'wrong-value', L, l)
    for name in ('normalized', 'unit'):
        u = lib.call(getattr(V, name))
        if isinstance(u, lib.Raised):
            bad(name, 'raises:' + u.cls, 'unit vector', u)
            continue
        uc = [float(x) for x in comps(u)]
        if abs(math.sqrt(sum(x * x for x in uc)) - 1) > 1e-12:
            bad(name, 'not-unit-length', 1.0, uc)
        exp = [float(c) / L for c in v]
        if any(abs(x - y) > 1e-12 for x, y in zip(uc, exp)):
            bad(name, 'wrong-direction', exp, uc)
    # angle against every axis unit vector and against itself / its negation / a scaled copy
    others = [('x', [1, 0, 0]), ('y', [0, 1, 0]), ('z', [0, 0, 1]), ('self', v), ('neg', [-c for c in v]), ('perm', [v[1], v[2], v[0]])]
    for lab, w in others:
        W = Vector(*w)
        dotp = float(sum(F(x) * F(y) for x, y in zip(v, w)))
        Lw = math.sqrt(float(sum(F(c) * F(c) for c in w)))
        exp = math.acos(max(-1.0, min(1.0, dotp / (L * Lw))))
        got = lib.call(V.angle, W)
        if isinstance(got, lib.Raised):
            bad('angle-' + lab, 'raises:' + got.cls, exp, got)
        elif not (isinstance(got, float) and -1e-12 <= got <= math.pi + 1e-12):
            bad('angle-' + lab, 'out-of-range', exp, got)
        elif abs(got - exp) > 1e-7:
            bad('angle-' + lab, 'wrong-value', exp, got)
    return cell, viols


TINY = (0.0, 2.5e-11, -2.5e-11, 1e-13, 3e-6, 1.0, -3.0)


def eval_tiny(fam, a, b):
    """Vector(P1, P2) / subtraction / addition with float coordinates whose differences are far below the
    tolerance: arithmetic is exact component algebra, the tolerance must play no role."""
    viols = []
    for op, th, exp in (('from-points', lambda: comps(Vector(Point(*a), Point(*b))), [y - x for x, y in zip(a, b)]),
                        ('sub', lambda: comps(Vector(*b) - Vector(*a)), [y - x for x, y in zip(a, b)]),
                        ('add', lambda: comps(Vector(*a) + Vector(*b)), [x + y for x, y in zip(a, b)]),
                        ('pv', lambda: comps(Point(*b).pv()), list(b))):
        r = lib.call(th)
        if isinstance(r, lib.Raised):
            viols.append(Viol('C18|tiny|%s|raises:%s' % (op, r.cls), core.enc(('tiny', a, b)), tdesc(exp), repr(r), op))
        elif not same_exact(r, exp):
            viols.append(Viol('C18|tiny|%s|wrong-value-or-type' % op, core.enc(('tiny', a, b)), tdesc(exp), tdesc(r),
                              '%s with differences below the tolerance' % op))
    return 'tiny', viols


def eval_reassign(fam, tname, d, d2):
    """length / normalized / angle, then v[i] = c in place, then the same queries again."""
    conv = {'int': int, 'float': float, 'Fraction': F}[tname]
    v = Vector(*[conv(c) for c in d])
    lib.call(v.length)
    lib.call(v.normalized)
    lib.call(v.angle, Vector(1, 0, 0))
    for i in range(3):
        v[i] = conv(d2[i])
    L = math.sqrt(float(sum(F(c) * F(c) for c in d2)))
    viols = []
    sc = core.enc(('reassign', tname, d, d2))
    l = lib.call(v.length)
    if isinstance(l, lib.Raised) or not lib.close_rel(l, L, 1e-12, 0):
        viols.append(Viol('C18|reassign|%s|length|stale-after-in-place-assignment' % tname, sc, L, lib.describe(l), 'length after v[i] = c'))
    u = lib.call(v.normalized)
    if isinstance(u, lib.Raised) or any(abs(float(x) - float(c) / L) > 1e-12 for x, c in zip(comps(u), d2)):
        viols.append(Viol('C18|reassign|%s|normalized|stale-after-in-place-assignment' % tname, sc, [float(c) / L for c in d2], lib.describe(u), 'normalized after v[i] = c'))
    w = [d2[1], d2[2], d2[0]]
    dotp = float(sum(F(x) * F(y) for x, y in zip(d2, w)))
    exp = math.acos(max(-1.0, min(1.0, dotp / (L * L))))
    a = lib.call(v.angle, Vector(*[conv(c) for c in w]))
    if isinstance(a, lib.Raised) or abs(a - exp) > 1e-7:
        viols.append(Viol('C18|reassign|%s|angle|stale-after-in-place-assignment' % tname, sc, exp, lib.describe(a), 'angle after v[i] = c'))
    return 'reassign|' + tname, viols


# Decimals with more digits than the 28-digit context (exact expansions of binary floats, as the documented float -> Decimal
# promotion produces them): every single component operation rounds exactly once, so x - y and x + (-y) differ
LONG = [D(0.1), D(0.2), D(0.3), D(0.7), D(1), D(-0.45), D(0)]


def eval_longdec(fam, ia, ib):
    ca, cb = [LONG[i] for i in ia], [LONG[i] for i in ib]
    va, vb = Vector(*ca), Vector(*cb)
    viols = []
    sc = core.enc(('longdec', ia, ib))
    k = D(3)
    for op, th, exp in (('add', lambda: comps(va + vb), [x + y for x, y in zip(ca, cb)]),
                        ('sub', lambda: comps(va - vb), [x - y for x, y in zip(ca, cb)]),
                        ('from-points', lambda: comps(Vector(Point(*ca), Point(*cb))), [y - x for x, y in zip(ca, cb)]),
                        ('point-move', lambda: comps(Point(*ca).move(vb).pv()), [x + y for x, y in zip(ca, cb)]),
                        ('mul', lambda: comps(va * k), [x * k for x in ca]),
                        ('rmul', lambda: comps(k * va), [k * x for x in ca]),
                        ('index', lambda: comps(va), list(ca))):
        r = lib.call(th)
        if isinstance(r, lib.Raised):
            viols.append(Viol('C18|long-decimal|%s|raises:%s' % (op, r.cls), sc, tdesc(exp), repr(r), '%s over 55-digit Decimals' % op))
        elif not same_exact(r, exp):
            viols.append(Viol('C18|long-decimal|%s|not-the-single-component-operation' % op, sc, [str(x) for x in exp], [str(x) for x in r],
                              '%s over 55-digit Decimals differs from the component formula evaluated once per component' % op))
    return 'long-decimal', viols


def eval_points_mixed(fam, t1, t2, i, which):
    """two Points with coordinates of type t1; one coordinate of one of them is assigned a value of the more general type t2
    (Point.__setitem__ / attribute assignment store it as given); Vector(P1, P2) is promoted as a whole.  Only int Points:
    the coordinate differences are taken first, and float - Fraction / float - Decimal follow Python's own rules."""
    c1 = {'int': int, 'float': float, 'Fraction': F, 'Decimal': D}
    a, b = [c1[t1](x) for x in (1, 1, 3)], [c1[t1](x) for x in (4, -2, 5)]
    new = {'Fraction': F(1, 3), 'float': 0.25, 'Decimal': D('0.5')}[t2]
    pa, pb = Point(*a), Point(*b)
    tgt, lst = (pa, a) if which == 0 else (pb, b)
    if i == 0:
        tgt.x = new
    else:
        tgt[i] = new
    lst[i] = new
    want_t = c1[t2]
    exp = [want_t(y) - want_t(x) for x, y in zip(a, b)]
    r = lib.call(lambda: comps(Vector(pa, pb)))
    sc = core.enc(('points-mixed', t1, t2, i, which))
    if isinstance(r, lib.Raised):
        return 'points-mixed', [Viol('C18|points-mixed|%s<-%s|raises:%s' % (t1, t2, r.cls), sc, tdesc(exp), repr(r), 'Vector(P1, P2) raised')]
    if not same_exact(r, exp):
        return 'points-mixed', [Viol('C18|points-mixed|%s<-%s|not-promoted-as-a-whole' % (t1, t2), sc, tdesc(exp), tdesc(r),
                                     'Vector(P1, P2) after one coordinate of a %s Point was assigned a %s' % (t1, t2))]
    return 'points-mixed', []


SAME = {'int': lambda x: int(x), 'float': lambda x: float(x), 'Decimal': lambda x: D(x), 'Fraction': lambda x: F(x)}


def eval_promo_seq(fam, ctor, kinds_a, kinds_b):
    """the same three numerical values (2, 3, 5) first in the types kinds_a, then in the types kinds_b: the types of the
    second object are decided by kinds_b alone."""
    out = []
    cell = 'promotion-sequence|%s' % ctor
    mk = {'Vector': lambda vs: comps(Vector(*vs)), 'Vector-list': lambda vs: comps(Vector(list(vs))), 'Point': lambda vs: (lambda p: [p.x, p.y, p.z])(Point(*vs))}[ctor]
    for kinds in (kinds_a, kinds_b):
        vals = [SAME[k](x) for k, x in zip(kinds, (2, 3, 5))]
        r = lib.call(mk, vals)
        top = min(kinds, key=lambda k: RANK[k])
        want_t = {'int': int, 'float': float, 'Decimal': D, 'Fraction': F}[top]
        sc = core.enc(('promo-seq', ctor, kinds_a, kinds_b))
        if isinstance(r, lib.Raised):
            out.append(Viol('C18|promotion-sequence|%s|%s|raises:%s' % (ctor, top, r.cls), sc, top, repr(r), 'constructor raised'))
        elif any(type(g) is not want_t for g in r) or [F(g) for g in r] != [2, 3, 5]:
            out.append(Viol('C18|promotion-sequence|%s|%s|wrong-type-or-value' % (ctor, top), sc, top, tdesc(r),
                            'coordinates (2, 3, 5) given as %s right after the same values given as %s' % (kinds, kinds_a)))
        if out:
            break
    return cell, out


def eval_reassign_mixed(fam, t1, t2, d, d2):
    """a vector with coordinates of type t1; coordinates of type t2 (non-integral values) are assigned in place; the stored
    values, dot and cross products and scalar multiples are those of the assigned values."""
    c1 = {'int': int, 'float': float, 'Fraction': F, 'Decimal': D}
    v = Vector(*[c1[t1](c) for c in d])
    new = [F(c) + F(1, 2) * (1 if i != 1 else -1) / (1 if i else 2) for i, c in enumerate(d2)]    # halves and quarters
    if t2 == 'int':
        new = [F(c) + (3, -1, 2)[i] for i, c in enumerate(d2)]
    sc = core.enc(('reassign-mixed', t1, t2, d, d2))
    viols = []
    for i in range(3):
        v[i] = c1[t2](new[i]) if t2 != 'float' else float(new[i])
    got = lib.call(comps, v)
    if isinstance(got, lib.Raised) or [F(g) for g in got] != new:
        viols.append(Viol('C18|reassign-mixed|%s<-%s|stored-value-differs-from-assigned' % (t1, t2), sc, [str(x) for x in new], lib.describe(got), 'v[i] = c then v[i]'))
        return 'reassign-mixed|%s<-%s' % (t1, t2), viols
    wv = [F(3, 2), F(-2), F(1, 4)] if t2 != 'int' else [F(3), F(-2), F(1)]
    w = Vector(*[c1[t2](c) if t2 != 'float' else float(c) for c in wv])
    dot = lib.call(lambda: v * w)
    if isinstance(dot, lib.Raised) or F(dot) != sum(a * b for a, b in zip(new, wv)):
        viols.append(Viol('C18|reassign-mixed|%s<-%s|dot' % (t1, t2), sc, str(sum(a * b for a, b in zip(new, wv))), lib.describe(dot), 'dot product after in-place assignment'))
    cr = lib.call(lambda: comps(v.cross(w)))
    ex = [new[1] * wv[2] - new[2] * wv[1], new[2] * wv[0] - new[0] * wv[2], new[0] * wv[1] - new[1] * wv[0]]
    if isinstance(cr, lib.Raised) or [F(x) for x in cr] != ex:
        viols.append(Viol('C18|reassign-mixed|%s<-%s|cross' % (t1, t2), sc, [str(x) for x in ex], lib.describe(cr), 'cross product after in-place assignment'))
    sm = lib.call(lambda: comps(v + w))
    if isinstance(sm, lib.Raised) or [F(x) for x in sm] != [a + b for a, b in zip(new, wv)]:
        viols.append(Viol('C18|reassign-mixed|%s<-%s|add' % (t1, t2), sc, [str(a + b) for a, b in zip(new, wv)], lib.describe(sm), 'sum after in-place assignment'))
    return 'reassign-mixed|%s<-%s' % (t1, t2), viols


def eval_consts(fam):
    viols = []
    for name, th, exp in (('zero', Vector.zero, [0, 0, 0]), ('x_unit_vector', x_unit_vector, [1, 0, 0]),
                          ('y_unit_vector', y_unit_vector, [0, 1, 0]), ('z_unit_vector', z_unit_vector, [0, 0, 1]),
                          ('Vector.x_unit_vector', Vector.x_unit_vector, [1, 0, 0])):
        r = lib.call(lambda: comps(th()))
        if isinstance(r, lib.Raised) or r != exp:
            viols.append(Viol('C18|const|%s|wrong-value' % name, core.enc(('const',)), exp, lib.describe(r), name))
    # a constant handed out earlier and mutated by its receiver must not change what the name denotes later
    for name, th, exp in (('zero', Vector.zero, [0, 0, 0]), ('x_unit_vector', x_unit_vector, [1, 0, 0]),
                          ('y_unit_vector', y_unit_vector, [0, 1, 0]), ('z_unit_vector', z_unit_vector, [0, 0, 1])):
        def seq():
            e = th()
            e[1] = 7
            e[0] = -3
            return comps(th())
        r = lib.call(seq)
        if isinstance(r, lib.Raised) or r != exp:
            viols.append(Viol('C18|const|%s|changed-after-mutating-an-earlier-result' % name, core.enc(('const',)), exp, lib.describe(r),
                              '%s() after an earlier result of it was modified in place' % name))
    return 'constants', viols


def eval_scene(fam, s):
    k = s[0]
    if k == 'grid':
        return eval_grid(fam, s[1], s[2], s[3])
    if k == 'ring':
        return eval_ring(fam)
    if k == 'promo':
        return eval_promo(fam, s[1], s[2])
    if k == 'metric':
        return eval_metric(fam, s[1], s[2], s[3])
    if k == 'const':
        return eval_consts(fam)
    if k == 'tiny':
        return eval_tiny(fam, s[1], s[2])
    if k == 'reassign':
        return eval_reassign(fam, s[1], s[2], s[3])
    if k == 'longdec':
        return eval_longdec(fam, s[1], s[2])
    if k == 'points-mixed':
        return eval_points_mixed(fam, s[1], s[2], s[3], s[4])
    if k == 'promo-seq':
        return eval_promo_seq(fam, s[1], s[2], s[3])
    if k == 'reassign-mixed':
        return eval_reassign_mixed(fam, s[1], s[2], s[3], s[4])
    raise core.HarnessError('bad scene')


class Grid(Family):
    def __init__(self, tname, avecs):
        self.name = 'grid/' + tname
        self.tname = tname
        self.avecs = avecs
        self.total = len(avecs) * len(GRID)
        self._shards = [(i, min(i + 5, len(avecs))) for i in range(0, len(avecs), 5)]

    def shards(self):
        return self._shards

    def scenes(self, shard):
        for a in self.avecs[shard[0]:shard[1]]:
            for b in GRID:
                yield ('grid', self.tname, a, b)

    def eval(self, s):
        return eval_scene(self.name, s)

    def nontrivial(self, cell):
        return True


class ListFamily(Family):
    def __init__(self, name, scenes, chunk=200):
        self.name = name
        self._sc = scenes
        self.total = len(scenes)
        self._shards = [(i, min(i + chunk, len(scenes))) for i in range(0, len(scenes), chunk)]

    def shards(self):
        return self._shards

    def scenes(self, shard):
        return iter(self._sc[shard[0]:shard[1]])

    def eval(self, s):
        return eval_scene(self.name, s)

    def nontrivial(self, cell):
        return True


def families(tier):
    fams = []
    avecs = GRID if tier != 'quick' else GRID[::2]
    for t in TYPES:
        fams.append(Grid(t, avecs))
    fams.append(ListFamily('ring', [('ring',), ('const',)]))
    kinds = ('int', 'float', 'Decimal', 'Fraction', 'user')
    fams.append(ListFamily('promotion', [('promo', c, ks) for c in ('Vector', 'Vector-list', 'Point') for ks in product(kinds, repeat=3)]))
    kinds2 = ('int', 'float*', 'Decimal*', 'Fraction*', 'user')
    fams.append(ListFamily('promotion-nonbinary', [('promo', c, ks) for c in ('Vector', 'Vector-list', 'Point') for ks in product(kinds2, repeat=3)]))
    scales = (F(1, 10 ** 6), F(1, 1000), 1, 1000, 10 ** 6)
    sc = []
    for d in A.D3ALL[::2]:
        for t in ('int', 'float', 'Fraction'):
            sc.append(('metric', t, d, 1 if t != 'float' else 1.0))
    for d in A.D2:
        for sca in scales:
            for t in ('int', 'float', 'Fraction'):
                if t == 'int' and F(sca) < 1:
                    continue
                sc.append(('metric', t, d, sca if t != 'float' else float(sca)))
    fams.append(ListFamily('metric', list(dict.fromkeys(sc)), chunk=100))
    tv = [(x, y, z) for x in TINY for y in TINY[:4] for z in (0.0, -3.0)]
    fams.append(ListFamily('tiny-differences', [('tiny', a, b) for a in tv[::3] for b in tv], chunk=400))
    ds = A.D1 if tier == 'quick' else A.D2
    fams.append(ListFamily('reassign', [('reassign', t, d, d2) for t in ('int', 'float', 'Fraction') for d in ds[::2] for d2 in ds], chunk=200))
    idx = list(product(range(len(LONG)), repeat=3))
    fams.append(ListFamily('long-decimal', [('longdec', ia, ib) for ia in (idx[::7] if tier == 'quick' else idx) for ib in idx], chunk=1500))
    fams.append(ListFamily('points-mixed', [('points-mixed', t1, t2, i, w) for t1, t2 in (('int', 'Fraction'), ('int', 'float'), ('int', 'Decimal'))
                                            for i in range(3) for w in (0, 1)], chunk=50))
    k4 = ('int', 'float', 'Decimal', 'Fraction')
    trip = list(product(k4, repeat=3))
    fams.append(ListFamily('promotion-sequence', [('promo-seq', c, ka, kb) for c in ('Vector', 'Vector-list', 'Point') for ka in trip for kb in trip if ka != kb], chunk=400))
    # Decimal is left out as the assigned type: Decimal x float arithmetic is a TypeError in Python itself
    fams.append(ListFamily('reassign-mixed', [('reassign-mixed', t1, t2, d, d2) for t1 in ('int', 'float', 'Fraction') for t2 in ('int', 'float', 'Fraction')
                                              for d in ds[::3] for d2 in ds[::2]], chunk=200))
    return fams


def run(tier, seed):
    fams = families(tier)
    res = core.run_families('C18', fams, seed)
    res.rule = ('grid: all ordered pairs of {-2..2}^3 vectors (quick: every second first operand) x 4 coordinate types x 10 operations + both-sided scalar '
                'multiplication; ring: one execution with 7 polynomial indeterminates through the same operations (observed degree per variable <= 2 < 5 grid '
                'values, so agreement on the grid implies identity); promotion: all 5^3 type mixtures x 3 constructor forms; metric: all D2 directions x 5 '
                'magnitudes x {int,float,Fraction}; all distinct and non-trivial')
    res.alphabets = {f.name: f.total for f in fams}
    return res


def replay(family, scene):
    return eval_scene(family, core.dec(scene))[1]
