"""C16 — solve returns genuine solutions of the linear system.

E1 product enumeration of *all* augmented matrices of the stated shapes over small entry
alphabets, compared against exact rational Gaussian elimination."""
from fractions import Fraction as F
from itertools import product

from Geometry3D import solve

from .. import core, lib
from ..core import Viol, Family

LEVEL = 'exploration'
TECHNIQUE = 'bounded-exhaustive enumeration of all small augmented matrices on the real solver vs exact rational elimination'

FREE = (-1, 0, 2, 0.5)


def exact_rank(rows):
    m = [[F(x) for x in r] for r in rows]
    rank = 0
    R = len(m)
    C = len(m[0]) if m else 0
    for j in range(C):
        piv = next((i for i in range(rank, R) if m[i][j] != 0), None)
        if piv is None:
            continue
        m[rank], m[piv] = m[piv], m[rank]
        for i in range(rank + 1, R):
            f = m[i][j] / m[rank][j]
            m[i] = [a - f * b for a, b in zip(m[i], m[rank])]
        rank += 1
        if rank == R:
            break
    return rank


class MatFamily(Family):
    def __init__(self, name, R, C, alphabet, fixed_zero_first_col=False, chunk=20000):
        self.name = name
        self.R, self.C, self.alpha = R, C, alphabet
        self.zero_first = fixed_zero_first_col
        self.nfree = R * C - (R if fixed_zero_first_col else 0)
        self.total = len(alphabet) ** self.nfree
        self._shards = [(a, min(a + chunk, self.total)) for a in range(0, self.total, chunk)]

    def shards(self):
        return self._shards

    def matrix(self, idx):
        k = len(self.alpha)
        vals = []
        for _ in range(self.nfree):
            idx, r = divmod(idx, k)
            vals.append(self.alpha[r])
        rows = []
        it = iter(vals)
        for i in range(self.R):
            row = []
            for j in range(self.C):
                if self.zero_first and j == 0:
                    row.append(0)
                else:
                    row.append(next(it))
            rows.append(row)
        return rows

    def scenes(self, shard):
        for idx in range(shard[0], shard[1]):
            yield self.matrix(idx)

    def enc_scene(self, m):
        return core.enc([[F(x) for x in r] for r in m])

    def dec_scene(self, j):
        return [[float(x) if F(x).denominator != 1 else int(x) for x in r] for r in core.dec(j)]

    trivial_cells = ()

    def nontrivial(self, cell):
        return 'plain' not in cell

    def eval(self, m):
        return eval_matrix(m, aliased=self.name.endswith('/aliased-rows'))


def eval_matrix(m, aliased=False):
    R, C = len(m), len(m[0])
    unknowns = C - 1
    rk = exact_rank([r[:-1] for r in m])
    rka = exact_rank(m)
    consistent = rk == rka
    # a "pivot-free column": some column j < unknowns that gets no pivot in echelon order
    zero_lead = all(r[0] == 0 for r in m)
    kind = 'plain' if (rk == min(R, unknowns) and consistent and not zero_lead) else 'deficient'
    cell = '%dx%d|rank%d|%s|%s%s' % (R, C, rk, 'consistent' if consistent else 'inconsistent', kind,
                                      '|zero-lead' if zero_lead else '')
    base = 'C16|solve|%dx%d|%s' % (R, C, 'consistent' if consistent else 'inconsistent')
    sc = core.enc([[F(x) for x in r] for r in m])
    viols = []
    if aliased:
        # equal rows are passed as one and the same list object (a legal way to write down a matrix)
        objs = {}
        arg = [objs.setdefault(tuple(r), list(r)) for r in m]
    else:
        arg = [list(r) for r in m]
    sol = lib.call(solve, arg)
    if isinstance(sol, lib.Raised):
        return cell, [Viol(base + '|raises:' + sol.cls, sc, 'a Solution object', repr(sol), 'solve() raised')]
    truthy = lib.call(bool, sol)
    if truthy is not consistent:
        viols.append(Viol(base + '|wrong-truthiness', sc, consistent, lib.describe(truthy),
                          'solve(m) truthiness %r but system is %s' % (truthy, 'consistent' if consistent else 'inconsistent')))
        return cell, viols
    # the verdict of one Solution object is stable: asking again (as `if sol: ... sol()` does) gives the same answer
    again = [lib.call(bool, sol), lib.call(bool, sol)]
    if any(t is not consistent for t in again):
        viols.append(Viol(base + '|truthiness-changes-when-asked-again', sc, [consistent] * 3, [lib.describe(truthy)] + [lib.describe(t) for t in again],
                          'bool(sol) evaluated three times on the same Solution object'))
        return cell, viols
    if not consistent:
        return cell, viols
    want = unknowns - rk
    if getattr(sol, 'varargs', None) != want:
        viols.append(Viol(base + '|wrong-varargs', sc, want, lib.describe(getattr(sol, 'varargs', None)),
                          'free-parameter count %r, expected unknowns-rank=%d' % (getattr(sol, 'varargs', None), want)))
        return cell, viols
    if getattr(sol, 'exact', None) is not (want == 0):
        viols.append(Viol(base + '|wrong-exact-flag', sc, want == 0, lib.describe(getattr(sol, 'exact', None)), '.exact flag'))
    for free in product(FREE, repeat=want):
        vals = lib.call(sol, *free)
        if isinstance(vals, lib.Raised):
            viols.append(Viol(base + '|call-raises:' + vals.cls, sc, 'solution tuple', repr(vals),
                              'solution%r raised' % (free,)))
            break
        if (not isinstance(vals, tuple)) or len(vals) != unknowns or any(
                (v is None or isinstance(v, bool) or not isinstance(v, (int, float, F))) for v in vals):
            viols.append(Viol(base + '|non-numeric-solution', sc, 'tuple of %d numbers' % unknowns,
                              lib.describe(vals), 'solution%r = %r' % (free, vals)))
            break
        bad = False
        for row in m:
            lhs = sum(float(a) * float(x) for a, x in zip(row[:-1], vals))
            scale = 1.0 + sum(abs(float(a) * float(x)) for a, x in zip(row[:-1], vals)) + abs(row[-1])
            if not abs(lhs - row[-1]) <= 1e-9 * scale:
                bad = True
        if bad:
            viols.append(Viol(base + '|not-a-solution', sc, 'every equation satisfied', lib.describe(vals),
                              'solution%r = %r does not satisfy the system' % (free, vals)))
            break
    return cell, viols


I2 = (0, 1, -1, 2, -2)
I1 = (0, 1, -1)
H = (0, 1, -1, 0.5, -0.5)


def eval_sequence(m1, m2):
    """solve(A); the caller then overwrites its own list in place with system B and solves that; then system A is
    written down again from scratch and solved; finally the first Solution is called again.  Every answer must be
    right for the system it belongs to."""
    viols = []
    sc = core.enc(('sequence', [[F(x) for x in r] for r in m1], [[F(x) for x in r] for r in m2]))

    def check(tag, m, sol):
        rk = exact_rank([r[:-1] for r in m])
        cons = rk == exact_rank(m)
        t = lib.call(bool, sol)
        if t is not cons:
            viols.append(Viol('C16|sequence|%s|wrong-truthiness' % tag, sc, cons, lib.describe(t), tag))
            return
        if not cons:
            return
        want = (len(m[0]) - 1) - rk
        if getattr(sol, 'varargs', None) != want:
            viols.append(Viol('C16|sequence|%s|wrong-varargs' % tag, sc, want, lib.describe(getattr(sol, 'varargs', None)), tag))
            return
        vals = lib.call(sol, *([0.5, -1, 2][:want]))
        if isinstance(vals, lib.Raised) or not isinstance(vals, tuple) or any(v is None for v in vals):
            viols.append(Viol('C16|sequence|%s|bad-solution' % tag, sc, 'numbers', lib.describe(vals), tag))
            return
        for row in m:
            lhs = sum(float(a) * float(x) for a, x in zip(row[:-1], vals))
            if abs(lhs - row[-1]) > 1e-9 * (1 + abs(row[-1]) + sum(abs(float(a) * float(x)) for a, x in zip(row[:-1], vals))):
                viols.append(Viol('C16|sequence|%s|not-a-solution' % tag, sc, 'every equation satisfied', lib.describe(vals), tag))
                return

    work = [list(r) for r in m1]
    s1 = lib.call(solve, work)
    if isinstance(s1, lib.Raised):
        return 'sequence', [Viol('C16|sequence|first|raises:' + s1.cls, sc, 'Solution', repr(s1), '')]
    check('first', m1, s1)
    for i, r in enumerate(m2):
        work[i] = list(r)
    s2 = lib.call(solve, work)
    if not isinstance(s2, lib.Raised):
        check('second-after-overwriting-the-list', m2, s2)
    s3 = lib.call(solve, [list(r) for r in m1])
    if not isinstance(s3, lib.Raised):
        check('first-system-written-down-again', m1, s3)
    # a Solution is a value: after other systems (given as their own, separate lists) were solved, it still answers for the
    # system it was computed from
    sa = lib.call(solve, [list(r) for r in m1])
    sb = lib.call(solve, [list(r) for r in m2])
    if not isinstance(sa, lib.Raised) and not isinstance(sb, lib.Raised):
        lib.call(bool, sb)
        check('solution-of-the-first-system-used-after-solving-the-second', m1, sa)
        check('solution-of-the-second-system-used-after-the-first-was-called', m2, sb)
    return 'sequence', viols


class SeqFamily(Family):
    def __init__(self, R, C, alpha, step):
        self.name = 'sequence/%dx%d' % (R, C)
        base = MatFamily('x', R, C, alpha)
        self.ms = [base.matrix(i) for i in range(0, base.total, step)]
        self.total = len(self.ms) * len(self.ms)
        self._shards = [(i, min(i + 4, len(self.ms))) for i in range(0, len(self.ms), 4)]

    def shards(self):
        return self._shards

    def scenes(self, shard):
        for a in self.ms[shard[0]:shard[1]]:
            for b in self.ms:
                yield (a, b)

    def enc_scene(self, s):
        return core.enc(('sequence', [[F(x) for x in r] for r in s[0]], [[F(x) for x in r] for r in s[1]]))

    def eval(self, s):
        return eval_sequence(s[0], s[1])

    def nontrivial(self, cell):
        return True


def families(tier):
    return _families(tier) + [MatFamily('2x3/aliased-rows', 2, 3, I2), MatFamily('3x3/{-1,0,1}/aliased-rows', 3, 3, I1),
                              MatFamily('3x4/{-1,0,1}/aliased-rows', 3, 4, I1, chunk=40000),
                              SeqFamily(2, 3, I1, 3 if tier == 'quick' else 1), SeqFamily(2, 4, I1, 41 if tier == 'quick' else 7)]


def _families(tier):
    fams = [
        MatFamily('1x3', 1, 3, I2), MatFamily('2x3', 2, 3, I2), MatFamily('1x4', 1, 4, I2),
        MatFamily('3x3/{-1,0,1}', 3, 3, I1), MatFamily('3x4/{-1,0,1}', 3, 4, I1),
        MatFamily('2x4', 2, 4, I2),
        MatFamily('2x3/halves', 2, 3, H),
    ]
    if tier == 'thorough':
        fams += [MatFamily('3x3', 3, 3, I2, chunk=40000),
                 MatFamily('3x4/zero-lead', 3, 4, I2, fixed_zero_first_col=True, chunk=40000),
                 MatFamily('3x3/halves', 3, 3, H, chunk=40000),
                 MatFamily('2x4/halves', 2, 4, H)]
    return fams


def run(tier, seed):
    fams = families(tier)
    res = core.run_families('C16', fams, seed)
    res.rule = ('every augmented matrix of each listed shape over the listed entry alphabet, enumerated once '
                '(distinct by construction); non-trivial = rank-deficient, inconsistent or zero leading column')
    res.alphabets = {f.name: ({'shape': [f.R, f.C], 'entries': [str(a) for a in f.alpha], 'matrices': f.total} if hasattr(f, 'alpha') else f.total) for f in fams}
    res.alphabets['free-parameter values'] = [str(x) for x in FREE]
    return res


def replay(family, scene):
    fam = MatFamily('replay', 1, 3, I2)
    if isinstance(scene, list) and scene and scene[0] == 'sequence':
        return eval_sequence(fam.dec_scene(scene[1]), fam.dec_scene(scene[2]))[1]
    m = fam.dec_scene(scene)
    return eval_matrix(m, aliased=str(family).endswith('/aliased-rows'))[1]
