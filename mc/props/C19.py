"""C19 — tolerance is uniform and follows set_eps / set_sig_figures.

E2: the state machine is the library's process-global configuration (FLOAT_EPS,
SIG_FIGURES and every import-time copy of them in Geometry3D.* modules); letters are the 18
setter calls; all histories to the stated depth are executed; in every state the relation
between the two globals and a perturbation battery over catalogue objects must hold, and
the battery outcome must be the same along every history into a state."""
import hashlib
import math
import sys
from fractions import Fraction as F

import Geometry3D as G
from Geometry3D import (Point, Vector, Line, Plane, Segment, HalfLine, ConvexPolygon, ConvexPolyhedron, intersection,
                        set_eps, get_eps, set_sig_figures, get_sig_figures)

from .. import core, lib, exact as X, e2
from ..core import Viol

LEVEL = 'model_checking'
TECHNIQUE = 'explicit-state search over all set_eps/set_sig_figures call sequences on the real process-global configuration, invariant = perturbation battery in every state'

EPS = (1e-12, 1e-11, 1e-10, 1e-9, 1e-8, 1e-7, 1e-6, 1e-5)
SIGS = (5, 6, 7, 8, 9, 10, 11, 12)
LETTERS = [('eps', e) for e in EPS] + [('eps', None)] + [('sig', s) for s in SIGS] + [('sig', None)]

FRAMES = {
    'axis': ((1, 0, 0), (0, 1, 0), (0, 0, 1)),
    'pyth3': ((1, 2, 2), (2, 1, -2), (2, -2, 1)),
    'pyth7': ((2, 3, 6), (3, -6, 2), (6, 2, -3)),
}
P0 = (F(1, 8), F(-1, 4), F(1, 2))


def config_snapshot():
    out = []
    for name, mod in sorted(sys.modules.items()):
        if name == 'Geometry3D' or name.startswith('Geometry3D.'):
            for var in ('FLOAT_EPS', 'SIG_FIGURES'):
                if hasattr(mod, var):
                    v = getattr(mod, var)
                    out.append((name, var, v.hex() if isinstance(v, float) else v))
    return tuple(out)


# --------------------------------------------------------------------------- catalogue

P0B = (F(3, 8), F(-5, 8), F(7, 8))     # all coordinates odd multiples of 1/8
CROSS = {}                             # label -> (p0, d, e, w): frame data of the line-like catalogue objects


def catalogue():
    """list of (label, kind, defining coordinate list, builder(coords) -> lib object, hashed exact quantities)."""
    cat = []
    for fname, frame in FRAMES.items():
        L2 = X.n2(frame[0])
        L = int(math.isqrt(L2))
        assert L * L == L2
        u, v, w = frame
        uu = tuple(F(c, L) for c in u)
        vv = tuple(F(c, L) for c in v)
        ww = tuple(F(c, L) for c in w)
        for bi, p0 in enumerate((P0, P0B)):
            tag = fname + ('' if bi == 0 else '/odd')
            cat.append((tag, 'Point', list(p0), lambda c: Point(*c), list(p0) + [p0[0] * p0[1], p0[0] * p0[2], p0[1] * p0[2]]))
            for di, d in enumerate((u, v, w)):
                dd = tuple(F(c, L) for c in d)
                mom = X.cross(dd, p0)
                t2 = '%s/d%d' % (tag, di)
                q = X.add(p0, d)
                others = [x for j, x in enumerate((u, v, w)) if j != di]
                CROSS[t2] = (p0, d, others[0], others[1])
                cat.append((t2, 'Line', list(p0) + [F(c) for c in d], lambda c: Line(Point(*c[:3]), Vector(*c[3:])), list(dd) + list(mom) + [-c for c in dd] + [-c for c in mom]))
                cat.append((t2, 'HalfLine', list(p0) + [F(c) for c in d], lambda c: HalfLine(Point(*c[:3]), Vector(*c[3:])), list(p0) + list(dd)))
                cat.append((t2, 'Segment', list(p0) + list(q), lambda c: Segment(Point(*c[:3]), Point(*c[3:])), list(p0) + list(q)))
                cat.append((t2, 'Plane', list(p0) + [F(c) for c in d], lambda c: Plane(Point(*c[:3]), Vector(*c[3:])),
                            list(dd) + [X.dot(dd, p0)] + [-c for c in dd] + [-X.dot(dd, p0)]))
                # the same plane through the general-form constructor a x + b y + c z = d (for axis frames the leading
                # coefficients are exact zeros, and a perturbed zero is a coefficient of size eps/1000)
                cat.append((t2, 'Plane', [F(c) for c in d] + [X.dot(d, p0)], lambda c: Plane(*c),
                            list(dd) + [X.dot(dd, p0)] + [-c for c in dd] + [-X.dot(dd, p0)]))
        p0 = P0
        cat.append((fname, 'Vector', [F(c) for c in u], lambda c: Vector(*c), [F(c) for c in u]))
        pts_sq = [p0, X.add(p0, u), X.add(X.add(p0, u), v), X.add(p0, v)]
        box = [X.add(X.add(X.add(p0, X.scal(i, u)), X.scal(j, v)), X.scal(k, w)) for i in (0, 1) for j in (0, 1) for k in (0, 1)]
        cat.append((fname, 'ConvexPolygon', [c for p in pts_sq for c in p],
                    lambda c: ConvexPolygon(tuple(Point(*c[3 * i:3 * i + 3]) for i in range(4))),
                    [c for p in pts_sq for c in p] + list(ww) + [X.dot(ww, p0)]))
        faces = [[0, 1, 3, 2], [4, 5, 7, 6], [0, 1, 5, 4], [2, 3, 7, 6], [0, 2, 6, 4], [1, 3, 7, 5]]
        hq = [c for p in box for c in p]
        for nrm in (uu, vv, ww):
            hq += list(nrm) + [X.dot(nrm, p0), X.dot(nrm, p0) + L]

        def mkbox(c, faces=faces):
            P = [Point(*c[3 * i:3 * i + 3]) for i in range(8)]
            return ConvexPolyhedron(tuple(ConvexPolygon(tuple(P[i] for i in f)) for f in faces))
        cat.append((fname, 'ConvexPolyhedron', [c for p in box for c in p], mkbox, hq))
    return cat


def guard_ok(quantities, margin=F(7, 100)):
    for c in quantities:
        for s in SIGS:
            x = F(c) * 10 ** s
            f = x - (x.numerator // x.denominator)
            if abs(f - F(1, 2)) < margin:
                return False
    return True


CAT = None


def get_cat():
    global CAT
    if CAT is None:
        CAT = [(fn, kind, coords, mk, guard_ok(hq)) for fn, kind, coords, mk, hq in catalogue()]
    return CAT


def def_points(o):
    if isinstance(o, Point):
        return [o]
    if isinstance(o, Segment):
        return [o.start_point, o.end_point]
    if isinstance(o, HalfLine):
        return [o.point]
    if isinstance(o, Line):
        return [Point(o.sv)]
    if isinstance(o, Plane):
        return [o.p]
    if isinstance(o, ConvexPolygon):
        return list(o.points)
    if isinstance(o, ConvexPolyhedron):
        return list(o.point_set)
    return []


def perturb_indices(kind, n, full):
    if kind == 'Plane' and n == 4:
        return [0, 1, 2, 3]         # general form: every coefficient, including exact zeros
    if kind in ('Line', 'HalfLine', 'Segment', 'Plane') and not full:
        return [0, 2, 3, 4]
    if kind == 'ConvexPolyhedron':
        return [0, 1, 2, 21, 22, 23] if full else [0, 22]
    if kind == 'ConvexPolygon' and not full:
        return [0, 4, 8]
    return list(range(n))


def battery(full):
    """returns (results vector, [(label, symptom)])."""
    eps = get_eps()
    res = []
    fails = []
    for fname, kind, coords, mk, admitted in get_cat():
        if not admitted:
            continue
        if not full and kind == 'ConvexPolyhedron' and fname != 'pyth3':
            continue
        base_c = [float(c) for c in coords]
        a = lib.construct(kind, lambda: mk(base_c))
        for idx in perturb_indices(kind, len(coords), full):
            for div in ((1000, -1000, 100, -100) if full else (1000, -1000)):
                c2 = list(base_c)
                d = eps / div
                c2[idx] = base_c[idx] + d
                if not (0 < abs(c2[idx] - base_c[idx]) <= abs(d) * 1.0000001):
                    c2[idx] = base_c[idx] + d * 0.75
                    if not (0 < abs(c2[idx] - base_c[idx]) <= abs(d)):
                        res.append(None)
                        continue
                lab = '%s/%s/c%d/eps/%d' % (fname, kind, idx, div)
                b = lib.call(mk, c2)
                if isinstance(b, lib.Raised):
                    fails.append((lab, kind, 'perturbed-construction-raises:' + b.cls))
                    res.append('R')
                    continue
                ok = True

                def chk(name, th, want=True):
                    nonlocal ok
                    r = lib.call(th)
                    if r is not want:
                        ok = False
                        fails.append((lab, kind, name + (':raises:' + r.cls if isinstance(r, lib.Raised) else '')))

                chk('eq', lambda: a == b)
                chk('eq-swapped', lambda: b == a)
                chk('hash-equal', lambda: hash(a) == hash(b))
                if kind != 'Vector':
                    if kind != 'Point':
                        chk('contains-others-points', lambda: all(p in a for p in def_points(b)) and all(p in b for p in def_points(a)))
                    if full or kind not in ('ConvexPolyhedron',):
                        r = lib.call(intersection, a, b)
                        if isinstance(r, lib.Raised) or type(r) is not type(a):
                            ok = False
                            fails.append((lab, kind, 'intersection-not-coincident:' + lib.tname(r)))
                        else:
                            chk('intersection-equals-operand', lambda: r == a)
                res.append(ok)
        if kind in ('Line', 'Segment', 'HalfLine') and fname in CROSS and (full or fname.endswith('d0')):
            # a second line-like object crossing this one at an interior point, pushed out of the common plane by
            # eps/1000: within the current tolerance they still meet, the intersection must be that Point
            p0, d, e, w = CROSS[fname]
            Xp = [float(p0[i]) + 0.5 * float(d[i]) for i in range(3)]
            for sgn in (1, -1):
                off = [sgn * eps / 1000 * float(w[i]) / math.sqrt(float(X.n2(w))) for i in range(3)]
                s0 = [Xp[i] - float(e[i]) + off[i] for i in range(3)]
                s1 = [Xp[i] + float(e[i]) + off[i] for i in range(3)]
                lab = '%s/%s/crossing/eps/%d' % (fname, kind, sgn * 1000)
                for ckind, mkc in (('Segment', lambda: Segment(Point(*s0), Point(*s1))), ('Line', lambda: Line(Point(*s0), Point(*s1)))):
                    c_ = lib.call(mkc)
                    for order, th in (('ab', lambda: intersection(a, c_)), ('ba', lambda: intersection(c_, a))):
                        r = lib.call(th)
                        ok = isinstance(r, Point) and all(abs(float(r[i]) - Xp[i]) <= 10 * eps + 1e-12 for i in range(3))
                        res.append(ok)
                        if not ok:
                            fails.append((lab, kind, 'crossing-within-tolerance-not-a-point:%s-x-%s:%s' % (kind, ckind, lib.tname(r))))
        if kind == 'Point' and fname in ('axis', 'pyth3'):
            # two points eps/1000 apart are the same point under the current tolerance: no Line / Segment / HalfLine through them
            for idx in range(3):
                c2 = list(base_c)
                c2[idx] = base_c[idx] + eps / 1000
                for cname, ctor in (('Line', Line), ('Segment', Segment), ('HalfLine', HalfLine)):
                    for form, th in (('PP', lambda: ctor(Point(*base_c), Point(*c2))),
                                     ('PV', lambda: ctor(Point(*base_c), Vector(*[c2[i] - base_c[i] for i in range(3)])))):
                        r = lib.call(th)
                        ok = isinstance(r, lib.Raised)
                        res.append(ok)
                        if not ok:
                            fails.append(('%s/%s(%s)/c%d' % (fname, cname, form, idx), cname, 'zero-length-within-current-tolerance-not-rejected'))
        if kind in ('Point', 'Vector'):
            for idx in (0, 1, 2, 3, 4, 5):
                sgn = 1 if idx < 3 else -1
                idx = idx % 3
                c2 = list(base_c)
                c2[idx] = base_c[idx] + sgn * 4 * eps
                lab = '%s/%s/c%d/4eps' % (fname, kind, idx)
                b = mk(c2)
                r = lib.call(lambda: a == b)
                r2 = lib.call(lambda: a != b)
                if r is not False or r2 is not True:
                    fails.append((lab, kind, 'differs-by-4eps-but-equal'))
                    res.append(False)
                else:
                    res.append(True)
    return res, fails


def make_persistent():
    """objects created, compared and hashed under the default configuration and kept alive
    across later configuration changes: {target eps: [(label, kind, a, a')]} with a' = a
    perturbed by (target eps)/1000 in one defining coordinate."""
    out = {}
    simple = []
    for fname, kind, coords, mk, admitted in get_cat():
        # (general-form planes are not kept across configuration changes: a coefficient that was NOT negligible when the plane
        # was built legitimately puts its support point ~1/coefficient away, where the two planes really are far apart)
        if admitted and not (kind == 'Plane' and len(coords) == 4) and kind in ('Point', 'Line', 'Plane', 'Segment', 'HalfLine') and fname in ('axis', 'pyth3', 'pyth3/odd', 'pyth3/odd/d1', 'axis/d2', 'pyth7/d0', 'axis/d0', 'pyth3/d0'):
            simple.append((fname, kind, [float(c) for c in coords], mk, 1))
    # simplicial bodies stay constructible under every tolerance when one vertex is perturbed
    for fname in ('axis', 'pyth3'):
        u, v, w = FRAMES[fname]
        tri = [P0, X.add(P0, u), X.add(P0, v)]
        tet = tri + [X.add(P0, w)]
        simple.append((fname, 'ConvexPolygon', [float(c) for p in tri for c in p],
                       lambda c: ConvexPolygon(tuple(Point(*c[3 * i:3 * i + 3]) for i in range(3))), 4))

        def mktet(c):
            P = [Point(*c[3 * i:3 * i + 3]) for i in range(4)]
            return ConvexPolyhedron(tuple(ConvexPolygon((P[i], P[j], P[k])) for i, j, k in ((0, 1, 2), (0, 1, 3), (0, 2, 3), (1, 2, 3))))
        simple.append((fname, 'ConvexPolyhedron', [float(c) for p in tet for c in p], mktet, 10))
    for e in EPS:
        lst = []
        for fname, kind, base_c, mk, idx in simple:
            c2 = list(base_c)
            c2[idx] = base_c[idx] - e / 1000
            a, b = mk(base_c), mk(c2)
            # use them now (primes whatever a refactoring may cache)
            lib.call(hash, a)
            lib.call(hash, b)
            lib.call(lambda: a == b)
            lib.call(repr, a)
            lst.append(('%s/%s' % (fname, kind), kind, a, b))
        out[e] = lst
    return out


def check_persistent(persist, eps):
    res, fails = [], []
    for e, lst in sorted(persist.items()):
        if e > eps * 1.0000001:
            continue
        for lab, kind, a, b in lst:
            ok = True
            for name, th in (('eq', lambda: a == b), ('eq-swapped', lambda: b == a), ('hash-equal', lambda: hash(a) == hash(b))):
                r = lib.call(th)
                if r is not True:
                    ok = False
                    fails.append(('persistent/%s/made-for-eps-%g' % (lab, e), kind, 'object-created-before-the-setting-change:' + name))
            res.append(ok)
    return res, fails


class ConfigMachine(e2.Machine):
    prop = 'C19'
    name = 'config'

    def __init__(self, depth, full_depth):
        self.max_depth = depth
        self.full_depth = full_depth

    def letters(self, hist):
        return LETTERS

    def model(self, hist):
        eps, sig = 1e-10, 10
        for k, v in hist:
            if k == 'eps':
                eps = 1e-10 if v is None else v
                sig = round(math.log10(1 / eps))
            else:
                sig = 10 if v is None else v
                eps = 1 / (10 ** sig)
        return eps, sig

    def build(self, hist):
        set_eps()
        persist = make_persistent()
        for k, v in hist:
            if k == 'eps':
                set_eps() if v is None else set_eps(v)
            else:
                set_sig_figures() if v is None else set_sig_figures(v)
        return {'cfg': config_snapshot(), 'persist': persist}

    def key(self, st, hist):
        # no merging: every history to the bound is executed (full unrolling); the
        # configuration itself is the observation key used for history independence
        return (st['cfg'], tuple(hist))

    def invariant(self, st, hist):
        viols = []
        sc = core.enc(tuple((k, F(v) if isinstance(v, float) else v) for k, v in hist))
        try:
            eps, sig = get_eps(), get_sig_figures()
            meps, msig = self.model(hist)
            if sig != round(-math.log10(eps)):
                viols.append(Viol('C19|config|sig-figures-inconsistent-with-eps', sc, round(-math.log10(eps)), sig, 'get_sig_figures() vs get_eps()'))
            if not (abs(eps - meps) <= 1e-6 * meps) or sig != msig:
                viols.append(Viol('C19|config|setter-result', sc, [meps, msig], [eps, sig], 'configuration after the history'))
            full = len(hist) <= self.full_depth
            res, fails = battery(full)
            pres, pfails = check_persistent(st.get('persist') or {}, eps)
            res = res + pres
            fails = fails + pfails
            st['digest'] = hashlib.sha1(repr((full, res)).encode()).hexdigest()
            seen = set()
            for lab, kind, sym in fails:
                sig_ = 'C19|battery|%s|%s' % (kind, sym)
                if sig_ not in seen:
                    seen.add(sig_)
                    viols.append(Viol(sig_, sc, True, lab, 'at eps=%g (sig figures %d): %s fails for %s' % (eps, sig, sym, lab)))
        finally:
            set_eps()
        return viols

    def observe(self, st, hist):
        return ((st['cfg'], len(hist) <= self.full_depth), st.get('digest'))


def _distinct_cfgs(depth):
    """configurations reachable within the bound, computed on the model side."""
    m = ConfigMachine(depth, 0)
    out = set()
    from itertools import product
    for n in range(depth + 1):
        for h in product(LETTERS, repeat=n):
            out.add((m.model(h),))
    return out


DEPTH = {'quick': (2, 1), 'thorough': (3, 2)}


def run(tier, seed):
    d, fd = DEPTH[tier]
    m = ConfigMachine(d, fd)
    res = e2.run_machines('C19', [m], seed)
    res.extra['histories_executed'] = res.states
    res.states = len({k[0] for k in _distinct_cfgs(d)})
    res.nontrivial = res.states
    cat = get_cat()
    res.rule = ('states = distinct values of (FLOAT_EPS, SIG_FIGURES and all module-level copies); all %d-letter setter alphabets sequences to depth %d are '
                'executed on the real globals; in every history the configuration relation and the perturbation battery (eps/1000, eps/100, 4 eps on every '
                'defining coordinate of the catalogue objects; full battery up to depth %d, reduced beyond) must hold and the outcome vector must be '
                'identical along all histories into the same state' % (len(LETTERS), d, fd))
    res.alphabets = {'letters': [str(l) for l in LETTERS], 'catalogue_objects': len(cat), 'admitted_by_7pct_guard': sum(1 for c in cat if c[4]),
                     'frames': list(FRAMES)}
    res.extra['histories'] = res.transitions + 1
    return res


def replay(family, scene):
    hist = tuple((k, float(v) if isinstance(v, F) else v) for k, v in core.dec(scene))
    m = ConfigMachine(len(hist), len(hist))
    st = m.build(hist)
    return m.invariant(st, hist)
