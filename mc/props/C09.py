"""C09 — polygon / polyhedron construction is order independent and canonical.

E1 over the same permutation / face-order / orientation spaces as C06, plus vertex
duplications, plus feedback (results of intersections rebuilt from their own vertex / face
lists in every rotation and reversal)."""
import math
from fractions import Fraction as F
from itertools import combinations

from Geometry3D import ConvexPolygon, ConvexPolyhedron, intersection

from .. import core, lib, exact as X, alphabet as A, perm
from ..core import Viol, Family
from ..icheck import faces_hash_ok, model_inter
from . import C06, C03

LEVEL = 'exploration'
TECHNIQUE = 'bounded-exhaustive enumeration of vertex permutations/duplications and face orders x orientations on the real code vs exact combinatorial model'


def _sub(a, b):
    return (a[0] - b[0], a[1] - b[1], a[2] - b[2])


def polygon_problems(r, e, want_normal=None):
    """list of (symptom, detail) for library polygon r against exact polygon e."""
    out = []
    try:
        pts = [lib._c(p) for p in r.points]
        if not lib.match_points(pts, e[1]):
            return [('wrong-vertex-set', lib.describe(r))]
        n = lib._c(r.plane.n)
        en = lib._c(X.plane_normal_of(e[1]))
        ln, le = math.sqrt(X.n2(n)), math.sqrt(X.n2(en))
        if not (ln > 0 and math.sqrt(X.n2(X.cross(n, en))) <= 1e-8 * ln * le):
            out.append(('normal-not-perpendicular-to-polygon', lib.describe(r.plane)))
            return out
        if abs(ln - 1) > 1e-9:
            out.append(('normal-not-unit', ln))
        m = len(pts)
        scale = max(X.n2(_sub(p, pts[0])) for p in pts)
        for i in range(m):
            a, b, c = pts[i], pts[(i + 1) % m], pts[(i + 2) % m]
            s = X.dot(X.cross(_sub(b, a), _sub(c, b)), n) / ln
            if not s > 1e-9 * scale:
                out.append(('cycle-not-counter-clockwise-about-normal', lib.describe(r)))
                break
        # a left turn at every vertex is necessary but not sufficient (star orders {5/2}, {7/3} ... also turn left everywhere):
        # consecutive stored vertices must be consecutive in the exact boundary cycle of the model
        _, cyc = X.poly_cycle(e[1])
        cf = [tuple(float(c) for c in v) for v in cyc]
        idx = [min(range(m), key=lambda j: X.n2(_sub(p, cf[j]))) for p in pts]
        steps = {(idx[(i + 1) % m] - idx[i]) % m for i in range(m)}
        if m > 3 and not (steps == {1} or steps == {m - 1}):
            out.append(('cycle-is-not-the-boundary-of-the-polygon', lib.describe(r)))
        for p in pts:
            if abs(X.dot(_sub(p, lib._c(r.plane.p)), n)) > 1e-8 * ln * max(1.0, math.sqrt(scale)):
                out.append(('vertex-off-plane', lib.describe(r.plane)))
                break
        cen = tuple(sum(p[i] for p in pts) / m for i in range(3))
        if not lib._close(lib._c(r.center_point), cen, 1e-8):
            out.append(('center-not-centroid', lib.describe(r.center_point)))
        if want_normal is not None and not lib._close(tuple(c / ln for c in n), want_normal, 1e-8):
            out.append(('normal-sign', [list(n), list(want_normal)]))
    except Exception as ex:
        out.append(('malformed:' + type(ex).__name__, str(ex)[:100]))
    return out


def eval_polygon(fam, pts):
    distinct = tuple(dict.fromkeys(pts))
    e = X.Pg(distinct)
    cell = 'polygon-n%d%s' % (len(distinct), '-dup%d' % (len(pts) - len(distinct)) if len(pts) != len(distinct) else '')
    sc = lambda: core.enc(('polygon', pts))
    viols = []

    def bad(step, sym, got):
        viols.append(Viol('C09|polygon|%s|%s|%s' % (step, cell, sym), sc(), core.enc(e), got if isinstance(got, (str, int, float, list)) else lib.describe(got),
                          '%s: %s' % (step, sym)))

    r = lib.call(lambda: ConvexPolygon(tuple(lib.P(p) for p in pts)))
    if isinstance(r, lib.Raised):
        bad('construct', 'raises:' + r.cls, repr(r))
        return cell, viols
    for sym, det in polygon_problems(r, e):
        bad('construct', sym, det)
    if viols:
        return cell, viols
    n0 = lib._c(r.plane.n)
    ng = lib.call(lambda: -r)
    if isinstance(ng, lib.Raised):
        bad('neg', 'raises:' + ng.cls, repr(ng))
        return cell, viols
    for sym, det in polygon_problems(ng, e, X.neg(n0)):
        bad('neg', sym, det)
    ng2 = lib.call(lambda: -ng)
    if isinstance(ng2, lib.Raised):
        bad('neg-neg', 'raises:' + ng2.cls, repr(ng2))
        return cell, viols
    for sym, det in polygon_problems(ng2, e, n0):
        bad('neg-neg', sym, det)
    return cell, viols


def polyhedron_problems(r, e):
    out = []
    try:
        V = e[1]
        facets = X.facets_of(e)
        edges = X.edges_of(e)
        pts = [lib._c(p) for p in r.point_set]
        if not lib.match_points(pts, V):
            return [('wrong-vertex-set', lib.describe(r))]
        segs = list(r.segment_set)
        if len(segs) != len(edges):
            out.append(('wrong-edge-count', '%d/%d' % (len(segs), len(edges))))
        else:
            used = [False] * len(edges)
            for s in segs:
                ends = [lib._c(s.start_point), lib._c(s.end_point)]
                for i, (a, b) in enumerate(edges):
                    if not used[i] and lib.match_points(ends, [a, b]):
                        used[i] = True
                        break
                else:
                    out.append(('edge-not-an-edge-of-the-body', lib.describe(s)))
                    break
        faces = list(r.convex_polygons)
        if len(faces) != len(facets):
            out.append(('wrong-face-count', '%d/%d' % (len(faces), len(facets))))
        else:
            used = [False] * len(facets)
            c = lib._c(X.interior_point(e))
            for f in faces:
                fp = [lib._c(p) for p in f.points]
                for i, (n, cyc) in enumerate(facets):
                    if not used[i] and lib.match_points(fp, cyc):
                        used[i] = True
                        fn = lib._c(f.plane.n)
                        nn = lib._c(n)
                        if not (X.dot(fn, nn) > 0 and math.sqrt(X.n2(X.cross(fn, nn))) <= 1e-8 * math.sqrt(X.n2(fn) * X.n2(nn))):
                            out.append(('face-normal-not-outward', lib.describe(f.plane)))
                        elif not X.dot(fn, _sub(fp[0], c)) > 0:
                            out.append(('face-normal-not-outward', lib.describe(f.plane)))
                        for sym, det in polygon_problems(f, X.Pg(cyc)):
                            out.append(('face-' + sym, det))
                        break
                else:
                    out.append(('face-not-a-facet-of-the-body', lib.describe(f)))
                    break
        if len(r.point_set) - len(r.segment_set) + len(r.convex_polygons) != 2:
            out.append(('euler', [len(r.point_set), len(r.segment_set), len(r.convex_polygons)]))
        cp = lib._c(r.center_point)
        for n, d, on in X.hull_facets(V):
            nn = lib._c(n)
            if not (X.dot(nn, cp) - float(d)) < -1e-9 * math.sqrt(X.n2(nn)):
                out.append(('center-not-strictly-inside', list(cp)))
                break
        if hasattr(r, 'pyramid_set') and len(r.pyramid_set) != len(facets):
            out.append(('wrong-pyramid-count', len(r.pyramid_set)))
    except Exception as ex:
        out.append(('malformed:' + type(ex).__name__, str(ex)[:100]))
    return out


def eval_polyhedron(fam, faces, order, orient):
    verts = tuple(dict.fromkeys(v for cyc in faces for v in cyc))
    e = X.Ph(verts)
    cell = 'polyhedron-F%d' % len(faces)
    r = lib.call(C06.build_polyhedron, faces, order, orient)
    sc = lambda: core.enc(('polyhedron', faces, order, orient))
    if isinstance(r, lib.Raised):
        return cell, [Viol('C09|polyhedron|construct|%s|raises:%s' % (cell, r.cls), sc(), core.enc(e), repr(r), 'constructor raised')]
    return cell, [Viol('C09|polyhedron|construct|%s|%s' % (cell, sym), sc(), core.enc(e), det if isinstance(det, (str, int, float, list)) else lib.describe(det), sym)
                  for sym, det in polyhedron_problems(r, e)]


def eval_feedback(fam, a, b):
    e, cell, skip = model_inter(a, b)
    if skip:
        return skip, []
    if e is None or e[0] not in X.BODY:
        return 'feedback|not-a-body', []
    la, lb = lib.to_lib(a), lib.to_lib(b)
    r = lib.call(intersection, la, lb)
    ok, why = lib.matches(r, e)
    if not ok:
        return 'feedback|c03-violation', []   # C03's business
    viols = []
    sc = lambda: core.enc(('feedback', a, b))
    if e[0] == 'ConvexPolygon':
        pts = list(r.points)
        m = len(pts)
        for rev in (False, True):
            for k in range(m):
                lst = pts[k:] + pts[:k]
                if rev:
                    lst = lst[::-1]
                r2 = lib.call(lambda: ConvexPolygon(tuple(lst)))
                if isinstance(r2, lib.Raised):
                    viols.append(Viol('C09|feedback|polygon|raises:' + r2.cls, sc(), core.enc(e), repr(r2), 'rebuild from own points'))
                    return 'feedback|polygon', viols
                for sym, det in polygon_problems(r2, e):
                    viols.append(Viol('C09|feedback|polygon|' + sym, sc(), core.enc(e), lib.describe(r2), 'rebuild rot=%d rev=%s' % (k, rev)))
                    return 'feedback|polygon', viols
        return 'feedback|polygon', viols
    faces = list(r.convex_polygons)
    m = len(faces)
    for rev in (False, True):
        for k in range(m):
            lst = faces[k:] + faces[:k]
            if rev:
                lst = [(-f) for f in lst[::-1]]
            r2 = lib.call(lambda: ConvexPolyhedron(tuple(lst)))
            if isinstance(r2, lib.Raised):
                viols.append(Viol('C09|feedback|polyhedron|raises:' + r2.cls, sc(), core.enc(e), repr(r2), 'rebuild from own faces'))
                return 'feedback|polyhedron', viols
            for sym, det in polyhedron_problems(r2, e):
                viols.append(Viol('C09|feedback|polyhedron|' + sym, sc(), core.enc(e), lib.describe(r2), 'rebuild rot=%d negated-reversed=%s' % (k, rev)))
                return 'feedback|polyhedron', viols
    return 'feedback|polyhedron', viols


def eval_stacked(fam, verts, fi):
    """build A, take the face object A.convex_polygons[fi] and use that very object as the base of a pyramid B that lies
    on the other side of it; B must come out with all normals outward (the shared face turned round)."""
    K = X.Ph(verts)
    a = lib.to_lib(K)
    facets = X.facets_of(K)
    c = X.interior_point(K)
    viols = []
    if fi >= len(a.convex_polygons):
        return 'stacked', []
    fobj = a.convex_polygons[fi]
    # the exact facet this object is
    fp = [lib._c(p) for p in fobj.points]
    match = next((cyc for n, cyc in facets if lib.match_points(fp, cyc)), None)
    if match is None:
        return 'stacked', []
    n = next(n for n, cyc in facets if cyc == match)
    m = len(match)
    fc = tuple(sum(F(v[i]) for v in match) / m for i in range(3))
    apex = X.add(fc, X.scal(F(1, 2), n))      # outside A
    e = X.Ph(tuple(match) + (apex,))
    if not X.is_convex_position(e[1]):
        return 'stacked', []
    sides = [ConvexPolygon((lib.P(match[i]), lib.P(match[(i + 1) % m]), lib.P(apex))) for i in range(m)]
    b = lib.call(lambda: ConvexPolyhedron(tuple([fobj] + sides)))
    sc = lambda: core.enc(('stacked', verts, fi))
    if isinstance(b, lib.Raised):
        return 'stacked', [Viol('C09|stacked|construct|raises:%s' % b.cls, sc(), core.enc(e), repr(b), 'a valid face set using a face object of another body')]
    for sym, det in polyhedron_problems(b, e):
        viols.append(Viol('C09|stacked|%s' % sym, sc(), core.enc(e), det if isinstance(det, (str, int, float, list)) else lib.describe(det),
                          'body built on a face object taken from another body'))
    # ... and A, whose face object was borrowed, is still the body it was (all normals outward, same vertices / edges / faces)
    for sym, det in polyhedron_problems(a, K):
        viols.append(Viol('C09|stacked|first-body-damaged-by-building-the-second|%s' % sym, sc(), core.enc(K), det if isinstance(det, (str, int, float, list)) else lib.describe(det),
                          'body A after a body B was built on one of its face objects'))
    return 'stacked', viols


def eval_cap(fam, verts, n, d):
    """results of intersections fed back as inputs, mixed with exact faces: the body K is cut by the plane n.x = d; the computed
    section polygon (whatever rounding noise it carries) together with the exactly given other faces of the half body
    n.x <= d is a closed face set and must be accepted as that half body."""
    K = X.Ph(verts)
    p0 = tuple(F(d) * F(c, X.n2(n)) for c in n)
    E = X.Pl(p0, n)
    e, cell, skip = model_inter(E, K)
    if skip:
        return skip, []
    if e is None or e[0] != 'ConvexPolygon':
        return 'cap|no-section', []
    eqs, ineqs = X.hrep(K)
    hv = tuple(X.vertices(eqs, tuple(ineqs) + (X.clear(n, d),)))
    if len(hv) < 4 or X.rank_pts(hv) != 3:
        return 'cap|flat', []
    H = X.Ph(hv)
    if not faces_hash_ok(H):
        return 'skip:hash-boundary', []
    r = lib.call(intersection, lib.to_lib(E), lib.to_lib(K))
    ok, why = lib.matches(r, e)
    if not ok:
        return 'cap|c02-violation', []      # C02's business
    others = [cyc for nn, cyc in X.facets_of(H) if not all(X.dot(n, v) == d for v in cyc)]
    sc = lambda: core.enc(('cap', verts, n, d))
    viols = []
    for order in (0, 1):
        faces = [ConvexPolygon(tuple(lib.P(v) for v in cyc)) for cyc in others]
        faces = ([r] + faces) if order == 0 else (faces + [r])
        b = lib.call(lambda: ConvexPolyhedron(tuple(faces)))
        if isinstance(b, lib.Raised):
            return 'cap', [Viol('C09|cap|construct|raises:%s' % b.cls, sc(), core.enc(H), repr(b), 'computed section polygon + exact other faces of the half body')]
        for sym, det in polyhedron_problems(b, H):
            viols.append(Viol('C09|cap|%s' % sym, sc(), core.enc(H), det if isinstance(det, (str, int, float, list)) else lib.describe(det),
                              'half body built from a computed section polygon and exact faces'))
        if viols:
            break
    return 'cap', viols


def eval_scene(fam, s):
    if s[0] == 'stacked':
        return eval_stacked(fam, s[1], int(s[2]))
    if s[0] == 'cap':
        return eval_cap(fam, s[1], s[2], s[3])
    if s[0] == 'polygon':
        return eval_polygon(fam, s[1])
    if s[0] == 'polyhedron':
        return eval_polyhedron(fam, s[1], s[2], s[3])
    if s[0] == 'feedback':
        return eval_feedback(fam, s[1], s[2])
    raise core.HarnessError('bad scene')


class Wrap(Family):
    """a C06 variant family evaluated with the C09 predicates."""

    def __init__(self, inner):
        self.inner = inner
        self.name = inner.name
        self.total = inner.total
        self.scene_timeout = inner.scene_timeout

    def shards(self):
        return self.inner.shards()

    def scenes(self, shard):
        return self.inner.scenes(shard)

    def eval(self, s):
        return eval_scene(self.name, s)

    def nontrivial(self, cell):
        return True


class Dups(Family):
    def __init__(self, name, pose, double):
        self.name = 'dups/%s/%s' % (name, pose.name)
        pts = [pose.point(p) for p in A.POLYGONS[name]]
        n = len(pts)
        sc = []
        for i in range(n):
            for j in range(n + 1):
                l1 = pts[:j] + [pts[i]] + pts[j:]
                sc.append(('polygon', tuple(l1)))
                if double:
                    for i2 in range(n):
                        for j2 in range(j, n + 2):
                            sc.append(('polygon', tuple(l1[:j2] + [pts[i2]] + l1[j2:])))
        # rotate the base order too, so that duplicates land among the first three
        base = list(sc)
        for tag, l in base[:: max(1, len(base) // 40)]:
            sc.append((tag, tuple(reversed(l))))
        self.sc = list(dict.fromkeys(sc))
        self.total = len(self.sc)
        self._shards = [(i, min(i + 500, self.total)) for i in range(0, self.total, 500)]

    def shards(self):
        return self._shards

    def scenes(self, shard):
        return iter(self.sc[shard[0]:shard[1]])

    def eval(self, s):
        return eval_scene(self.name, s)

    def nontrivial(self, cell):
        return True


class Feedback(Family):
    scene_timeout = 300.0

    def __init__(self, inner):
        self.inner = inner
        self.name = 'feedback/' + inner.name
        self.total = inner.total

    def shards(self):
        return self.inner.shards()

    def scenes(self, shard):
        for a, b in self.inner.scenes(shard):
            yield ('feedback', a, b)

    def eval(self, s):
        return eval_scene(self.name, s)

    def nontrivial(self, cell):
        return cell in ('feedback|polygon', 'feedback|polyhedron')


def families(tier):
    fams = [Wrap(f) for f in C06.variant_families(tier)]
    for pose in A.poses(tier):
        for name in A.POLYGONS:
            n = len(A.POLYGONS[name])
            fams.append(Dups(name, pose, double=(n <= 4 if tier == 'quick' else n <= 6)))
    st = []
    for pose in A.poses(tier):
        for nm in (('tetrahedron', 'box', 'pyramid', 'cut-cube', 'unit-cube') if tier == 'quick' else list(A.POLYHEDRA)):
            K = pose(A.polyhedron(nm))
            for fi in range(len(X.hull_facets(K[1]))):
                st.append(('stacked', K[1], fi))

    class _Stacked(Dups):
        def __init__(self, sc):
            self.name = 'stacked'
            self.sc = sc
            self.total = len(sc)
            self._shards = [(i, min(i + 10, self.total)) for i in range(0, self.total, 10)]
    fams.append(_Stacked(st))
    caps = []
    for pose in A.poses(tier):
        for nm in (('tetrahedron', 'box', 'cut-cube', 'skew-tetra') if tier == 'quick' else list(A.POLYHEDRA)):
            K = pose(A.polyhedron(nm))
            for n in ((1, 0, 0), (0, 1, 0), (0, 0, 1), (-1, 0, 0), (0, -1, 0), (1, 1, 0), (1, 2, 2), (2, -1, 3)):
                vals = sorted({X.dot(n, v) for v in K[1]})
                lo, hi = vals[0], vals[-1]
                # (offsets such as 3/7 or 32/49 of the extent are not binary fractions: every computed section vertex carries its own
                #  last-bit noise in the coordinate that is constant on the cutting plane, the exactly given faces do not)
                for k in ((1, 2), (3, 8), (2, 3), (3, 7), (32, 49)) if tier == 'quick' else ((1, 2), (1, 4), (3, 4), (3, 8), (2, 3), (1, 5), (3, 7), (32, 49), (5, 11)):
                    caps.append(('cap', K[1], n, lo + (hi - lo) * F(*k)))

    class _Caps(_Stacked):
        def __init__(self, sc):
            _Stacked.__init__(self, sc)
            self.name = 'cap'
    fams.append(_Caps(caps))
    bodies = A.QUICK_BODIES
    pairs = [(a, b) for a in bodies for b in bodies]
    for pose in (A.poses(tier) if tier != 'quick' else [A.P0]):
        fams.append(Feedback(C03.BodyPairs('translate', pose, pairs, {'window': C03.window(-1, 1, 1) if tier == 'quick' else C03.window(-2, 2, 1)})))
    return fams


def run(tier, seed):
    A.validate_catalogue()
    fams = families(tier)
    res = core.run_families('C09', fams, seed)
    res.rule = ('the C06 permutation / face-order x orientation spaces, plus every single (and, up to the stated size, double) duplication of '
                'a vertex at every list position, plus every polygon / polyhedron returned by the translated body-pair scenes rebuilt from its own '
                'points / faces in every rotation and reversal; all distinct constructions')
    res.alphabets = {f.name: f.total for f in fams}
    return res


def replay(family, scene):
    return eval_scene(family, core.dec(scene))[1]
