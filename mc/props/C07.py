"""C07 — move translates the object in place and keeps it self-consistent.

E2: explicit-state BFS over move / chained move / deepcopy histories on real objects (state
key = bit-exact snapshot of receiver and returned handle, with aliasing, plus the model
translation).  In every state both handles must answer a query battery exactly like an
object freshly constructed at the model's translation."""
import copy
import math
from fractions import Fraction as F

from Geometry3D import (Point, Vector, Line, Plane, Segment, HalfLine, ConvexPolygon, ConvexPolyhedron, intersection, distance,
                        angle, parallel, orthogonal)

from .. import core, lib, exact as X, alphabet as A, e2
from ..core import Viol
from ..snapshot import snapshot

LEVEL = 'model_checking'
TECHNIQUE = 'explicit-state breadth-first search over move/deepcopy histories executed on the real objects, invariant = query battery vs freshly constructed object at the exact model translation'

SIGMA = ((0, 0, 0), (1, 0, 0), (0, -1, 0), (0, 0, 1), (1, 2, -1), (F(-1, 2), F(1, 4), 0), (-1, -2, 1))
ID = ((1, 0, 0), (0, 1, 0), (0, 0, 1))


def translate(o, t):
    return X.xform(o, ID, 1, t)


BASES = {
    'Point': [X.Pt((1, 0, 2))],
    'Line': [X.Ln((0, 1, 0), (1, 0, 0)), X.Ln((1, 0, 1), (1, 2, -1))],
    'Plane': [X.Pl((0, 0, 1), (0, 0, 1)), X.Pl((1, 0, 0), (1, 2, 2))],
    'Segment': [X.Sg((0, 0, 0), (2, 0, 0)), X.Sg((1, 0, 1), (2, 2, 0))],
    'HalfLine': [X.Hl((1, 1, 0), (0, 1, 0)), X.Hl((0, 1, 1), (2, -1, 1))],
    'ConvexPolygon': [A.polygon('square'), A.P1(A.polygon('pentagon'))],
    'ConvexPolyhedron': [A.polyhedron('tetrahedron'), A.P1(A.polyhedron('prism'))],
}

PROBES = [X.Ln((0, 0, 0), (1, 0, 0)), X.Ln((1, 1, 0), (0, 0, 1)), X.Ln((1, 0, 1), (1, 2, -1)),
          X.Pl((1, 0, 0), (1, 0, 0)), X.Pl((0, 0, F(1, 2)), (0, 0, 1)), X.Pl((1, 0, 1), (1, 1, 1)),
          X.Sg((0, 0, 0), (2, 2, 0)), X.Sg((1, 0, 0), (1, 2, 2)), X.Hl((2, 2, 2), (-1, -1, -1)), X.Hl((0, 1, 0), (1, 0, 0)),
          A.polygon('square'), A.polyhedron('tetrahedron')]


def probe_points(o):
    pts = []
    k = o[0]
    if k == 'Point':
        pts = [o[1], X.add(o[1], (F(1, 64), 0, 0))]
    elif k in ('Line', 'HalfLine'):
        p, d = o[1], o[2]
        pts = [p, X.add(p, d), X.sub(p, d), X.add(p, X.scal(F(1, 2), d)), X.add(p, (F(1, 64), F(1, 32), 0))]
    elif k == 'Segment':
        p, q = o[1], o[2]
        pts = [p, q, A.mid(p, q), X.add(q, X.sub(q, p)), X.add(p, (0, F(1, 64), F(1, 64)))]
    elif k == 'Plane':
        p, n = o[1], o[2]
        u = X.cross(n, (1, 0, 0)) if not X.is_zero(X.cross(n, (1, 0, 0))) else X.cross(n, (0, 1, 0))
        pts = [p, X.add(p, u), X.add(p, X.scal(F(1, 64), n)), X.sub(p, n)]
    else:
        pts = [p for lab, p in A.feature_points(o, offsets=(F(1, 64),))][:40]
    return pts


def near(a, b, tol=1e-9):
    if isinstance(a, (int, float)) and isinstance(b, (int, float)) and not isinstance(a, bool) and not isinstance(b, bool):
        return abs(a - b) <= tol * max(1.0, abs(a), abs(b))
    if isinstance(a, (list, tuple)) and isinstance(b, (list, tuple)):
        return len(a) == len(b) and all(near(x, y, tol) for x, y in zip(a, b))
    return a == b


def pts_key(ps):
    return sorted([[round(c, 9) + 0.0 for c in lib._c(p)] for p in ps])


def attrs(o):
    """cached derived attributes, in a representation-independent form."""
    out = []
    if isinstance(o, (Segment, HalfLine)):
        l = o.line
        anchor = o.start_point if isinstance(o, Segment) else o.point
        out.append(('line-contains-anchor', anchor in l))
        d = lib._c(l.dv)
        v = lib._c(Vector(o.start_point, o.end_point)) if isinstance(o, Segment) else lib._c(o.vector)
        cr = X.cross(d, v)
        out.append(('line-parallel', math.sqrt(X.n2(cr)) <= 1e-9 * math.sqrt(X.n2(d) * X.n2(v))))
        # the line as a set: closest point to the origin and the unsigned unit direction
        L = math.sqrt(X.n2(d))
        u = [c / L for c in d]
        s = lib._c(l.sv)
        t = X.dot(s, u)
        foot = [s[i] - t * u[i] for i in range(3)]
        sg = 1 if (u[0], u[1], u[2]) > (-u[0], -u[1], -u[2]) else -1
        out.append(('line-set', [foot, [sg * c for c in u]]))
    if isinstance(o, ConvexPolygon):
        n = lib._c(o.plane.n)
        out.append(('plane-n', list(n)))
        out.append(('plane-offset', X.dot(n, lib._c(o.plane.p))))
        out.append(('center_point', list(lib._c(o.center_point))))
        out.append(('points', pts_key(o.points)))
    if isinstance(o, ConvexPolyhedron):
        out.append(('point_set', pts_key(o.point_set)))
        out.append(('segment_set', sorted(pts_key([s.start_point, s.end_point]) for s in o.segment_set)))
        out.append(('center_point', list(lib._c(o.center_point))))
        out.append(('pyramid_set', sorted([pts_key(py.convex_polygon.points), list(lib._c(py.point))] for py in o.pyramid_set)))
        out.append(('faces', sorted([pts_key(f.points), [round(c, 9) + 0.0 for c in lib._c(f.plane.n)]] for f in o.convex_polygons)))
    return out


def battery(o, probes, ppts):
    """list of (label, described answer) of every query on o."""
    out = []

    def q(label, th):
        r = lib.call(th)
        out.append((label, lib.canon(r)))

    for i, p in enumerate(ppts):
        if isinstance(o, Point):
            q('eq-pt%d' % i, lambda: o == p)
        else:
            q('in-pt%d' % i, lambda: p in o)
    for i, pr in enumerate(probes):
        q('inter%d' % i, lambda: intersection(o, pr))
        q('inter-swapped%d' % i, lambda: intersection(pr, o))
        if isinstance(o, (Point, Line, Plane)) and isinstance(pr, (Line, Plane)) and not (isinstance(o, Plane) and isinstance(pr, Plane)):
            q('distance%d' % i, lambda: distance(o, pr))
        if isinstance(o, (Line, Plane)) and isinstance(pr, (Line, Plane)):
            q('angle%d' % i, lambda: angle(o, pr))
            q('parallel%d' % i, lambda: parallel(o, pr))
            q('orthogonal%d' % i, lambda: orthogonal(o, pr))
    for m in ('length', 'area', 'volume'):
        if hasattr(o, m):
            q(m, getattr(o, m))
    q('repr-type', lambda: type(o).__name__)
    for lab, val in lib.call(lambda: attrs(o)) if not isinstance(lib.call(lambda: attrs(o)), lib.Raised) else [('attrs', 'raises')]:
        out.append(('attr:' + lab, val))
    return out


def point_behaviour(pt, obj, probes):
    out = [lib.canon(lib.call(lambda: [pt.x, pt.y, pt.z])), lib.canon(lib.call(lambda: list(pt.pv()))), lib.canon(lib.call(lambda: list(Line(pt, Vector(1.0, 2.0, 3.0)).sv)))]
    if not isinstance(obj, Point):
        out.append(lib.canon(lib.call(lambda: pt in obj)))
    for pr in probes[:2]:
        out.append(lib.canon(lib.call(intersection, pt, pr)))
    return out


class MoveMachine(e2.Machine):
    prop = 'C07'

    def __init__(self, kind, idx, base, depth, mode='float'):
        self.kind, self.base = kind, base
        self.mode = mode          # 'int': the base object is built from Python int coordinates
        self.name = '%s#%d%s' % (kind, idx, '' if mode == 'float' else '/int')
        self.max_depth = depth
        self.reversed_form = False
        self.full_sigma = True
        self.probes0 = PROBES
        self.ppts0 = probe_points(base)
        self._fresh_cache = {}

    def letters(self, hist):
        out = []
        for i in (range(len(SIGMA)) if self.full_sigma else (0, 3, 4, 5)):
            out.append(('M', i))
            out.append(('C', i))
        out.append(('D',))
        if not any(ev[0] == 'K' for ev in hist):
            out.append(('K',))     # keep a deep copy of the receiver as a bystander: it must stay where it was
        out.append(('Q',))     # run the whole query battery on the receiver (primes any cache) and go on
        out.append(('B', 4))   # move by v then by -v (must restore)
        out.append(('B', 5))
        return out

    def model(self, hist):
        t = (0, 0, 0)
        for ev in hist:
            if ev[0] in ('M', 'C'):
                t = X.add(t, SIGMA[ev[1]])
        return t

    def build(self, hist):
        lib.MODE = self.mode
        lib.KEEP = []
        try:
            recv = lib.to_lib(self.base)
            if self.reversed_form:
                recv = lib.construct(self.kind, lambda: -recv)      # the same point set, built in reversed form
        finally:
            lib.MODE = 'float'
            args, lib.KEEP = lib.KEEP, None
        ret = None
        last_eq = None
        t = (0, 0, 0)
        kept = None
        kept_t = None
        for ev in hist:
            if ev[0] in ('M', 'C'):
                t = X.add(t, SIGMA[ev[1]])
            if ev[0] == 'K':
                kept = lib.call(copy.deepcopy, recv)
                kept_t = t
                last_eq = None
                continue
            if ev[0] == 'Q':
                probes = [lib.to_lib(translate(p, t)) for p in self.probes0]
                ppts = [lib.P(X.add(p, t)) for p in self.ppts0]
                battery(recv, probes, ppts)
                lib.call(hash, recv)
                lib.call(repr, recv)
                if ret is not None and not isinstance(ret, lib.Raised) and ret is not recv:
                    lib.call(hash, ret)
                last_eq = None
            elif ev[0] == 'M':
                v = lib.V(SIGMA[ev[1]])
                ret = lib.call(recv.move, v)
                last_eq = ('M', ret, recv)
            elif ev[0] == 'C':
                v = lib.V(SIGMA[ev[1]])
                r = lib.call(recv.move, v)
                last_eq = ('C', r, recv)
                if not isinstance(r, lib.Raised) and r is not None:
                    recv = r
                ret = r
            elif ev[0] == 'D':
                recv = copy.deepcopy(recv)
                last_eq = None
            elif ev[0] == 'B':
                v = lib.V(SIGMA[ev[1]])
                r1 = lib.call(recv.move, v)
                ret = lib.call(recv.move, -v)
                last_eq = ('B', ret, recv) if not isinstance(r1, lib.Raised) else ('B', r1, recv)
        return {'recv': recv, 'ret': ret, 'last': last_eq, 'kept': kept, 'kept_t': kept_t, 'args': args if self.kind not in ('Point', 'Plane') else []}

    def key(self, st, hist):
        ret = st['ret']
        kept = st.get('kept')
        return (snapshot((st['recv'], None if isinstance(ret, lib.Raised) else ret, None if isinstance(kept, lib.Raised) else kept)),
                self.model(hist), st.get('kept_t'))

    def fresh(self, t):
        if t not in self._fresh_cache:
            lib.MODE = self.mode
            try:
                f = lib.to_lib(translate(self.base, t))
                if self.reversed_form:
                    f = -f
            finally:
                lib.MODE = 'float'
            probes = [lib.to_lib(translate(p, t)) for p in self.probes0]
            ppts = [lib.P(X.add(p, t)) for p in self.ppts0]
            self._fresh_cache[t] = (battery(f, probes, ppts), lib.call(hash, f))
        return self._fresh_cache[t]

    def invariant(self, st, hist):
        t = self.model(hist)
        viols = []
        sc = None

        def bad(handle, sym, exp, got, msg=''):
            nonlocal sc
            if sc is None:
                sc = core.enc((self.kind, self.base, tuple(hist)))
            last = hist[-1][0] if hist else 'init'
            viols.append(Viol('C07|%s|%s|%s' % (self.kind, handle, sym), sc, exp, got,
                              '%s after history %s (last op %s): %s %s' % (self.kind, [e for e in hist], last, sym, msg)))

        last = st['last']
        if last is not None:
            op, r, recv = last
            if isinstance(r, lib.Raised):
                bad('ret', 'move-raises:' + r.cls, 'moved object', repr(r))
                return viols
            if r is None or type(r) is not type(recv):
                bad('ret', 'move-returns-wrong-type:' + lib.tname(r), type(recv).__name__, lib.describe(r))
                return viols
            e = lib.call(lambda: (r == recv) and (recv == r))
            if e is not True:
                bad('ret', 'returned-not-equal-to-receiver', True, lib.describe(e))
        fresh_b, fresh_h = self.fresh(t)
        probes = [lib.to_lib(translate(p, t)) for p in self.probes0]
        ppts = [lib.P(X.add(p, t)) for p in self.ppts0]
        f = lib.to_lib(translate(self.base, t))
        handles = [('recv', st['recv'])]
        if st['ret'] is not None and st['ret'] is not st['recv'] and not isinstance(st['ret'], lib.Raised):
            handles.append(('ret', st['ret']))
        kept = st.get('kept')
        if kept is not None:
            if isinstance(kept, lib.Raised):
                bad('kept-copy', 'deepcopy-raises:' + kept.cls, 'a copy', repr(kept))
            else:
                kt = st['kept_t']
                kb, kh = self.fresh(kt)
                kprobes = [lib.to_lib(translate(p, kt)) for p in self.probes0]
                kppts = [lib.P(X.add(p, kt)) for p in self.ppts0]
                b = battery(kept, kprobes, kppts)
                for (lab, got), (lab2, exp) in zip(b, kb):
                    if lab != lab2 or not near(got, exp):
                        bad('kept-copy', 'deepcopy-taken-earlier-changed-by-moving-the-source:' + lab.rstrip('0123456789'), exp, got, 'query %s' % lab)
                        break
                if lib.call(hash, kept) != kh:
                    bad('kept-copy', 'deepcopy-taken-earlier-hash-changed', 'hash(fresh)', 'different hash')
        # the Points the receiver was constructed from are the caller's: wherever the receiver went, they still look and behave
        # like freshly made Points with the coordinates the caller gave them (not claimed for Plane, which keeps the caller's
        # Point as its support point by design of the pinned library and moves it along; C20 does not list Plane either)
        for pt, coords in st.get('args', ())[:4]:
            fp_ = Point(*coords)
            ba, bf = point_behaviour(pt, f, probes), point_behaviour(fp_, f, probes)
            if not near(ba, bf):
                bad('constructor-argument', 'caller-point-changed-by-moving-the-object-built-from-it', bf, ba)
                break
        for hname, o in handles:
            b = battery(o, probes, ppts)
            if len(b) != len(fresh_b):
                bad(hname, 'battery-shape', len(fresh_b), len(b))
                continue
            for (lab, got), (lab2, exp) in zip(b, fresh_b):
                if lab != lab2 or not near(got, exp):
                    q = lab.rstrip('0123456789')
                    bad(hname, 'query-differs-from-fresh-object:' + q, exp, got, 'query %s' % lab)
                    break
            e = lib.call(lambda: (o == f) and (f == o))
            if e is not True:
                bad(hname, 'not-equal-to-fresh-object', True, lib.describe(e))
            h = lib.call(hash, o)
            if h != fresh_h:
                bad(hname, 'hash-differs-from-fresh-object', 'hash(fresh)', lib.describe(h) if isinstance(h, lib.Raised) else 'different hash')
        return viols


DEPTHS = {'quick': {'flat': 3, 'polygon': 3, 'polyhedron': 2}, 'thorough': {'flat': 5, 'polygon': 4, 'polyhedron': 3}}


def machines(tier):
    ms = _machines(tier)
    for m in ms:
        m.full_sigma = (tier != 'quick')      # quick: 4 of the 7 translation letters (zero, +z, oblique, fractional)
    return ms


def _machines(tier):
    ms = __machines(tier)
    rv = MoveMachine('ConvexPolygon', 1, BASES['ConvexPolygon'][1], DEPTHS[tier]['polygon'] - 1)
    rv.reversed_form = True
    rv.name = 'ConvexPolygon#1/negated'
    ms.append(rv)
    return ms


def __machines(tier):
    ms = []
    for kind, bases in BASES.items():
        cls = 'polygon' if kind == 'ConvexPolygon' else ('polyhedron' if kind == 'ConvexPolyhedron' else 'flat')
        for i, b in enumerate(bases):
            ms.append(MoveMachine(kind, i, b, DEPTHS[tier][cls]))
        # the axis-aligned base once more with Python int coordinates (moved by fractional vectors as well)
        ms.append(MoveMachine(kind, 0, bases[0], max(2, DEPTHS[tier][cls] - 1), mode='int'))
    return ms


def run(tier, seed):
    ms = machines(tier)
    res = e2.run_machines('C07', ms, seed)
    res.rule = ('states = distinct (bit-exact object-graph snapshot of receiver+returned handle incl. aliasing, model translation) reached by all '
                'histories over {move(v), chained move(v), deepcopy, query battery, move(v);move(-v)} with v in a 7-letter lattice alphabet up to the stated depth per '
                'type; in every state both handles answer the full query battery like a freshly constructed object at the model translation')
    res.alphabets = {'moves': [core.enc(v) for v in SIGMA], 'letters_per_state': 19, 'depth': DEPTHS[tier],
                     'bases': {k: len(v) for k, v in BASES.items()}, 'probes': len(PROBES)}
    return res


def replay(family, scene):
    kind, base, hist = core.dec(scene)
    mode = 'int' if '/int' in str(family) else 'float'
    cls = 'polygon' if kind == 'ConvexPolygon' else ('polyhedron' if kind == 'ConvexPolyhedron' else 'flat')
    m = MoveMachine(kind, 0, base, len(hist), mode=mode)
    viols = []
    for i in range(len(hist) + 1):
        h = tuple(hist[:i])
        st = m.build(h)
        viols += m.invariant(st, h)
    return viols
