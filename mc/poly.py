"""A small multivariate polynomial ring over Q used as a 'user-defined ring type' for C18.
It supports only ring operations; every comparison, conversion, rounding, hashing or
truth test raises ForbiddenOp, so pushing indeterminates through the real code also
*observes* that no data-dependent branch and no conversion is performed."""
from fractions import Fraction as F
from decimal import Decimal


class ForbiddenOp(Exception):
    pass


class Poly(object):
    __slots__ = ('t',)
    NV = 8

    def __init__(self, x=0):
        if isinstance(x, Poly):
            self.t = dict(x.t)
        elif isinstance(x, dict):
            self.t = {k: F(v) for k, v in x.items() if v != 0}
        elif isinstance(x, (int, F)):
            self.t = {(0,) * self.NV: F(x)} if x != 0 else {}
        elif isinstance(x, float):
            self.t = {(0,) * self.NV: F(x)} if x != 0 else {}
        elif isinstance(x, Decimal):
            self.t = {(0,) * self.NV: F(x)} if x != 0 else {}
        else:
            raise TypeError('Poly(%r)' % (x,))

    @classmethod
    def var(cls, i):
        e = [0] * cls.NV
        e[i] = 1
        return cls({tuple(e): 1})

    def _co(self, o):
        if isinstance(o, Poly):
            return o
        if isinstance(o, (int, F)) and not isinstance(o, bool):
            return Poly(o)
        return None

    def __add__(self, o):
        o = self._co(o)
        if o is None:
            return NotImplemented
        t = dict(self.t)
        for k, v in o.t.items():
            t[k] = t.get(k, 0) + v
        return Poly(t)

    __radd__ = __add__

    def __neg__(self):
        return Poly({k: -v for k, v in self.t.items()})

    def __sub__(self, o):
        o = self._co(o)
        if o is None:
            return NotImplemented
        return self + (-o)

    def __rsub__(self, o):
        o = self._co(o)
        if o is None:
            return NotImplemented
        return o + (-self)

    def __mul__(self, o):
        o = self._co(o)
        if o is None:
            return NotImplemented
        t = {}
        for k1, v1 in self.t.items():
            for k2, v2 in o.t.items():
                k = tuple(a + b for a, b in zip(k1, k2))
                t[k] = t.get(k, 0) + v1 * v2
        return Poly(t)

    __rmul__ = __mul__

    def same(self, o):
        o = self._co(o)
        return {k: v for k, v in self.t.items() if v != 0} == {k: v for k, v in o.t.items() if v != 0}

    def degree_per_var(self):
        d = [0] * self.NV
        for k in self.t:
            for i, e in enumerate(k):
                d[i] = max(d[i], e)
        return d

    def __format__(self, spec):
        return 'Poly'

    def __repr__(self):
        return 'Poly(%d terms)' % len(self.t)

    def _forbid(self, *a, **k):
        raise ForbiddenOp('comparison / conversion / rounding / hashing of a ring element')

    __eq__ = __ne__ = __lt__ = __le__ = __gt__ = __ge__ = _forbid
    __float__ = __int__ = __round__ = __bool__ = __abs__ = __index__ = _forbid
    __truediv__ = __rtruediv__ = __pow__ = _forbid

    def __hash__(self):
        # identity hash: == is forbidden, so a hash-keyed lookup can only ever hit on the very same object, which is
        # value-independent behaviour (a memoising constructor is not a violation of anything)
        return id(self) >> 4
