"""Shared scene evaluation for the intersection properties (C01-C04, C12, C13)."""
from functools import lru_cache

from Geometry3D import intersection

from . import core, lib, exact as X
from .core import Viol


@lru_cache(maxsize=20000)
def _plane_hash_ok(n, d):
    nn = X.n2(n)
    return all(X.hash_boundary_ok_sqrt(c, nn) for c in n) and X.hash_boundary_ok_sqrt(d, nn)


def faces_hash_ok(o):
    """unit normals and offsets of the face planes of a body, and its vertex coordinates."""
    if o is None:
        return True
    if not X.coords_hash_ok(o):
        return False
    if o[0] == 'ConvexPolygon':
        eqs, _ = X.hrep(o)
        return _plane_hash_ok(*eqs[0])
    if o[0] == 'ConvexPolyhedron':
        return all(_plane_hash_ok(n, d) for n, d, on in X.hull_facets(o[1]))
    return True


def measures_ok(r, e):
    """length / area / volume of a bounded library result against the exact values."""
    out = []
    k = e[0]
    if k == 'Segment':
        v = lib.call(r.length)
        if isinstance(v, lib.Raised) or not lib.close_rel(v, X.f_length(e)):
            out.append(('length', X.f_length(e), v))
    elif k == 'ConvexPolygon':
        v = lib.call(r.area)
        if isinstance(v, lib.Raised) or not lib.close_rel(v, X.f_area(e)):
            out.append(('area', X.f_area(e), v))
        v = lib.call(r.length)
        if isinstance(v, lib.Raised) or not lib.close_rel(v, X.f_length(e)):
            out.append(('length', X.f_length(e), v))
    elif k == 'ConvexPolyhedron':
        v = lib.call(r.volume)
        if isinstance(v, lib.Raised) or not lib.close_rel(v, X.f_volume(e)):
            out.append(('volume', X.f_volume(e), v))
        v = lib.call(r.area)
        if isinstance(v, lib.Raised) or not lib.close_rel(v, X.f_area(e)):
            out.append(('area', X.f_area(e), v))
    return out


def model_inter(a, b):
    """(expected denotation, cell, admitted?) decided on the model side only."""
    g = X.Guard()
    e, cell = X.inter(a, b, g)
    if a[0] in X.BODY or b[0] in X.BODY:
        if not (a[0] in X.LINELIKE or b[0] in X.LINELIKE or a[0] == 'Point' or b[0] == 'Point'):
            X.body_margin(a, b, g)
    if not g.ok():
        return e, cell, 'skip:margin'
    if not (faces_hash_ok(a) and faces_hash_ok(b) and faces_hash_ok(e)):
        return e, cell, 'skip:hash-boundary'
    return e, cell, None


_REUSE = {}


def reused(o):
    """a library object for the exact operand o that is *kept* across consecutive scenes using the
    same operand (one slot per type name): later scenes then run on an object that has already been
    queried many times, so impure queries and result caches keyed on stale state become visible."""
    slot = _REUSE.get(o[0])
    if slot is not None and slot[0] is o:
        return slot[1]
    obj = lib.to_lib(o)
    _REUSE[o[0]] = (o, obj)
    return obj


def eval_inter(prop, fam, a, b, forms=('fn',), measures=False, reuse_first=False):
    """a, b exact objects.  Returns (cell, viols)."""
    e, cell, skip = model_inter(a, b)
    if skip:
        return skip, []
    kind = 'None' if e is None else e[0]
    cell = '%s,%s|%s|%s' % (a[0], b[0], cell, kind)
    viols = []
    sc = None
    la = lb = None
    for form in forms:
        if form.startswith('method') and (a if form == 'method' else b)[0] == 'Point':
            continue
        if la is None or form in ('fn', 'fn-swapped'):
            la, lb = (reused(a) if (reuse_first and form == 'fn') else lib.to_lib(a)), lib.to_lib(b)
        if form == 'fn':
            r = lib.call(intersection, la, lb)
        elif form == 'fn-swapped':
            r = lib.call(intersection, lb, la)
        elif form == 'method':
            r = lib.call(lambda: la.intersection(lb))
        else:
            r = lib.call(lambda: lb.intersection(la))
        ok, why = lib.matches(r, e)
        if ok and measures and e is not None:
            for what, exp, got in measures_ok(r, e):
                ok, why = False, 'wrong-' + what
        if not ok:
            if sc is None:
                sc = core.enc((a, b))
            viols.append(Viol('%s|%s|%s|%s|%s' % (prop, fam.split('/')[0], form, cell, why), sc, core.enc(e), lib.describe(r),
                              'intersection(%s, %s) [%s form] expected %s got %s' % (a[0], b[0], form, kind, lib.tname(r))))
    return cell, viols


def safe_pose(pose, K):
    """the pose, or the same linear map with a slightly different (still dyadic) translation if a
    face-plane offset of pose(K) would fall on a hash rounding boundary (the whole body would be
    rejected by the admission guard otherwise).  Decided on the model side."""
    from .alphabet import Pose
    from fractions import Fraction as F
    if faces_hash_ok(pose(K)):
        return pose
    for i, dt in enumerate(((F(1, 2), 0, 0), (0, F(1, 4), F(1, 2)), (F(-1, 4), F(1, 2), F(1, 4)), (1, 1, F(-1, 2)), (F(3, 8), F(-5, 8), F(1, 8)))):
        q = Pose('%s~%d' % (pose.name, i), pose.M, pose.s, tuple(pose.t[k] + dt[k] for k in range(3)))
        if faces_hash_ok(q(K)):
            return q
    return pose


ID3 = ((1, 0, 0), (0, 1, 0), (0, 0, 1))
MOVED_V = ((1, 2, -1), (0, 0, 3), (-2, 1, 0))


def eval_moved_inter(prop, fam, a, b):
    """The scene (a, b) is reached by an in-place move: operand a is built displaced by -v0, queried there
    (which primes whatever a refactoring may cache), then moved by v0 onto its place; the same two objects are
    then intersected and compared with the exact intersection of (a, b) - so every relation cell of the
    underlying family (touching, collinear, nested ...) is exercised on a moved operand.  Afterwards the
    operands are moved alternately by further vectors, and the object returned by move() is used as well."""
    e0, cell, skip = model_inter(a, b)
    if skip:
        return skip, []
    cellname = 'moved|%s,%s' % (a[0], b[0])
    v0 = MOVED_V[0]
    if a[0] == 'Point' and b[0] != 'Point':
        a, b = b, a
    # (1) the caller is free to move what a query returned: a later query on freshly built equal operands is unaffected
    la0, lb0 = lib.to_lib(a), lib.to_lib(b)
    r0 = lib.call(intersection, la0, lb0)
    if hasattr(r0, 'move') and not isinstance(r0, lib.Raised):
        lib.call(r0.move, lib.V(MOVED_V[2]))
        for form, pair in (('ab', (a, b)), ('ba', (b, a))):
            r = lib.call(intersection, lib.to_lib(pair[0]), lib.to_lib(pair[1]))
            ok, why = lib.matches(r, e0)
            if not ok:
                return cellname, [Viol('%s|moved|%s|%s,%s|%s-on-fresh-operands-after-an-earlier-result-was-moved' % (prop, form, a[0], b[0], why), core.enc((a, b)), core.enc(e0),
                                       lib.describe(r), 'intersection(a, b); its result moved by the caller; intersection of freshly built equal operands')]
    # (2) operands built from caller-owned Points that serve other, moved, objects before and after
    a_start = X.xform(a, ID3, 1, X.neg(v0))
    with lib.shared_points():
        la, lb = lib.to_lib(a_start), lib.to_lib(b)
    lib.call(intersection, la, lb)
    lib.call(hash, la)
    ret = lib.call(la.move, lib.V(v0))
    if isinstance(ret, lib.Raised):
        return cellname, [Viol('%s|moved|%s,%s|move-raises:%s' % (prop, a[0], b[0], ret.cls), core.enc((a, b)), 'moved operand', repr(ret), '')]
    for who, obj in (('receiver', la), ('returned', ret)):
        for form, th in (('ab', lambda: intersection(obj, lb)), ('ba', lambda: intersection(lb, obj))):
            r = lib.call(th)
            ok, why = lib.matches(r, e0)
            if not ok:
                return cellname, [Viol('%s|moved|%s-%s|%s,%s|%s-after-in-place-move' % (prop, who, form, a[0], b[0], why), core.enc((a, b)), core.enc(e0), lib.describe(r),
                                       'operand a was built displaced by %r, queried, then moved in place onto its position; intersection with the %s object' % (X.neg(v0), who))]
    # the returned object and the receiver are independent: move the receiver away and back, the returned one stays
    if a[0] in X.BODY:
        lib.call(la.move, lib.V(MOVED_V[2]))
        r = lib.call(intersection, ret, lb)
        ok, why = lib.matches(r, e0)
        if not ok:
            return cellname, [Viol('%s|moved|returned-object-follows-the-receiver|%s,%s|%s' % (prop, a[0], b[0], why), core.enc((a, b)), core.enc(e0), lib.describe(r),
                                   'the object returned by move() changed when the receiver was moved again')]
        lib.call(la.move, lib.V(X.neg(MOVED_V[2])))
    ta, tb = a, b
    for i, v in enumerate(MOVED_V[1:], start=1):
        which = i % 2
        obj = (la, lb)[which]
        if obj is None or not hasattr(obj, 'move'):
            continue
        m = lib.call(obj.move, lib.V(v))
        if isinstance(m, lib.Raised):
            return cellname, [Viol('%s|moved|%s,%s|move-raises:%s' % (prop, a[0], b[0], m.cls), core.enc((a, b)), 'moved operand', repr(m), '')]
        if which == 0:
            ta = X.xform(ta, ID3, 1, v)
        else:
            tb = X.xform(tb, ID3, 1, v)
        e, _, skip = model_inter(ta, tb)
        if skip:
            continue
        for form, th in (('ab', lambda: intersection(la, lb)), ('ba', lambda: intersection(lb, la))):
            r = lib.call(th)
            ok, why = lib.matches(r, e)
            if not ok:
                return cellname, [Viol('%s|moved|%s|%s,%s|%s-after-in-place-move' % (prop, form, a[0], b[0], why), core.enc((a, b)), core.enc(e), lib.describe(r),
                                       'intersection of the same two objects after moving operand %d in place (step %d, by %r)' % (which, i, v))]
    return cellname, []
