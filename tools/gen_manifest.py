#!/venv/bin/python
"""Regenerates /verif/MANIFEST.json from the table below (run from /verif)."""
import json, os, sys
ROOT = os.path.dirname(os.path.dirname(os.path.abspath(__file__)))
sys.path.insert(0, ROOT)
from tools.manifest_table import CHECKS, NOT_APPLICABLE, ENGINES, NOTES

def cmd(pid, tier):
    return 'PYTHONHASHSEED=0 /venv/bin/python -m mc.check %s --tier %s' % (pid, tier)

m = {
    'version': 1,
    'setup_cmd': 'PYTHONHASHSEED=0 /venv/bin/python -m mc.selftest',
    'hooks': {
        'guard': 'GEOMETRY3D_VERIF',
        'enable': 'no source hooks are needed: every property is observable through the public API and attribute reads; '
                  'checks import the working tree of /repo directly (editable install) in a fresh process',
        'baseline_off_cmd': 'cd /repo && /venv/bin/python -m pytest -ra -q -p no:cacheprovider --timeout=900 --continue-on-collection-errors',
        'source_commits': [],
        'add_only': True,
    },
    'engines': ENGINES,
    'checks': [],
    'notes': NOTES,
    'not_applicable': NOT_APPLICABLE,
}
for c in CHECKS:
    m['checks'].append({
        'property_id': c['id'],
        'quick_cmd': cmd(c['id'], 'quick'),
        'thorough_cmd': cmd(c['id'], 'thorough'),
        'evidence_file': '/verif/evidence/%s.json' % c['id'],
        'replay_cmd_template': 'PYTHONHASHSEED=0 /venv/bin/python -m mc.check %s --replay {path}' % c['id'],
        'engine': c['engine'],
        'level_claimed': {'category': c['level'], 'text': c['text'], 'design_ref': c['ref']},
        'level_note': c['note'],
        'technique': c['technique'],
    })
with open(os.path.join(ROOT, 'MANIFEST.json'), 'w') as f:
    json.dump(m, f, indent=1)
try:
    import jsonschema
except ImportError:
    jsonschema = None
if jsonschema: jsonschema.validate(m, json.load(open("/root/.vp/MANIFEST.schema.json")))
print('MANIFEST.json written:', len(m['checks']), 'checks,', len(m['not_applicable']), 'not applicable')
