#!/bin/bash
# re-run the own-property quick check of every kept seeded change (scratch-worktree mode, parallel-safe)
# usage: tools/seedmatrix.sh [glob]      e.g. tools/seedmatrix.sh 'w3_*'
cd /verif
pat=${1:-*}
par=${PAR:-3}
mkdir -p /tmp/seedmatrix
ls -d seeded/$pat | while read d; do
  n=$(basename $d)
  p=$(/venv/bin/python -c "import json;print(json.load(open('$d/meta.json'))['breaks_property'])")
  echo "$n $p"
done | xargs -P $par -L 1 bash -c '/venv/bin/python tools/seedtest.py seeded/$0 $1 --worktree --keep-as $0 > /tmp/seedmatrix/$0.log 2>&1; echo "$0 done: $(grep -c "\"exit\": 1" /tmp/seedmatrix/$0.log)"'
