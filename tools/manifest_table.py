TRUST = ('Trusted base: the exact rational reference model (mc/exact.py), the observation tolerances (mc/lib.py), '
         'the admission guard, CPython; PYTHONHASHSEED pinned to 0; bounded to the stated finite alphabets.')

ENGINES = [
    {'name': 'E1', 'path': 'mc/core.py', 'serves_properties': ['C16'],
     'kind_free_text': 'sharded bounded-exhaustive product enumerator over scene alphabets, run on the real code against the exact model'},
]

CHECKS = [
    {'id': 'C16', 'engine': 'E1', 'level': 'exploration', 'ref': 'DESIGN.md §3 C16',
     'technique': 'bounded-exhaustive enumeration (explicit search over all small matrices) on the real code vs exact rational elimination',
     'text': 'Every augmented matrix of shapes 1x3..3x4 over small integer/half-integer alphabets is solved by the real solver and compared '
             'with exact rational Gaussian elimination (truthiness, free-parameter count, every returned tuple substituted back).',
     'note': TRUST},
]

_ALL = ['C%02d' % i for i in range(1, 21)]
NOT_APPLICABLE = [{'property_id': p, 'reason': 'check not built yet in this revision (planned, see DESIGN.md §3); nothing is claimed for it'}
                  for p in _ALL if p not in {c['id'] for c in CHECKS}]

NOTES = ('All checks: python -m mc.check <id> --tier quick|thorough, cwd /verif, exit 0/1 per the interface, exit 2 = harness error. '
         'Deciding technique everywhere: exhaustive enumeration of a stated finite scene/state space on the real implementation, '
         'compared with an exact rational reference model; no sampling, no solver verdicts.')
