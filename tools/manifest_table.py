TRUST = ('Trusted base: the exact rational reference model (mc/exact.py), the observation tolerances (mc/lib.py), '
         'the model-side admission guard, CPython; PYTHONHASHSEED pinned to 0; bounded to the finite alphabets stated in the evidence.')

E1 = 'bounded-exhaustive explicit enumeration of a finite scene space on the real code, every scene compared with an exact rational reference model'

E2 = 'explicit-state breadth-first search whose transition function is the real code (states keyed by bit-exact object-graph / configuration snapshots), invariant checked in every state'
E3 = 'closure / orbit breadth-first search with model-side nodes (exact denotations, group elements), every edge executed on the real code and checked for conformance'

_T = {
 'C01': ('exploration', 'Every ordered pair of flat objects (Line/HalfLine/Segment through all ordered lattice point pairs, all distinct lattice planes, '
         'half-lattice points) under exact oblique poses is intersected by the real code (function and method form) and compared with the closed-form exact model; '
         'all 25 type pairs and all collinear interval relations are populated (cells in evidence); lattice shifted so that -1/-2 coordinates occur, int coordinates and '
         'alternative constructor forms, first operand object reused across scenes, and a family that moves operands in place between queries.'),
 'C02': ('exploration', 'For every catalogue body x pose, every flat anchored at a body feature (vertex, edge midpoint, face point, interior) with directions from D1, '
         'edge directions and facet normals, in both argument orders, plus the exported boundary-hit helpers, is compared with exact clipping / vertex enumeration; bodies are also moved in place between '
         'queries, and polygons are placed in upright planes with awkward direction ratios (pose P4).'),
 'C03': ('exploration', 'Ordered pairs of catalogue bodies under all lattice translations of a window, all feature alignments, nested scalings and exact affine '
         're-orientations, vertex probing with small bodies, generic irrational rotations (float vertex enumeration under a general-position margin), bodies moved in place '
         'between queries (whole scene under oblique poses): result kind, vertex set, face count and measures against the exact vertex enumeration.'),
 'C05': ('exploration', 'Every (container, candidate) pair: lattice line-likes/planes x half-lattice points and lattice segments/half-lines/lines; bodies x feature points '
         '(on, just inside, just outside every boundary feature), feature segments, faces, shrunk/shifted/enlarged faces, cross-sections; against exact containment.'),
 'C06': ('exploration', 'All vertex permutations (n! up to the stated n, structured family beyond), all face orders x 2^F orientations (bounds stated per F), lattice segments '
         'and (face, apex) pyramids under poses: length/area/volume/height against exact rational measures.'),
 'C09': ('exploration', 'Same construction spaces as C06 plus vertex duplications and feedback of intersection results: vertex set, CCW cycle about the normal, negation, '
         'outward face normals, exact vertex/edge/facet sets, Euler count, centre strictly inside.'),
 'C10': ('exploration', 'All documented pairs over lattice points, lines through all ordered lattice point pairs and all distinct lattice planes x poses, both argument orders, '
         'function/method forms: value against the exact rational squared distance, sign, symmetry, zero iff intersection non-empty.'),
 'C11': ('exploration', 'All ordered pairs of lattice direction vectors (quick: D2xD2 plus every exactly parallel/anti-parallel/perpendicular pair of {-3..3}^3; thorough: all 342^2) '
         'x 5 type combinations x angle/parallel/orthogonal x function, swapped, method forms against exact cos^2 and exact flags.'),
 'C04': ('exploration', 'Reduced-alphabet scene sets of C01-C03 covering all 28 unordered / 49 ordered type pairs and their relation cells, each scene in all four call forms '
         '(function, swapped, method, swapped method): no exception, every form denotes the exact set, result type in the table parsed from the documentation; None operands.'),
 'C08': ('exploration', 'For every base object (lattice lines, half-lines, segments, planes, points, vectors, catalogue polygons/polyhedra x poses) its whole family of alternative '
         'representations and of near misses: all pairs compared with ==, !=, hash and set de-duplication; == against foreign types.'),
 'C14': ('exploration', 'Full product of centres x radii x axis directions (all lattice directions incl. +-axes, fixed near-axis catalogue straddling SMALL_ANGLE) x resolutions for '
         'Circle/Cylinder/Cone/Sphere; independent lattice pairs/triples for Parallelogram/Parallelepiped: counts, vertices on the specified surface, equal steps, '
         'closed-form area/volume, validity, arguments unmodified.'),
 'C15': ('exploration', 'Every invalid-input class of the statement instantiated over lattice positions x poses (incl. 1e-12 near-duplicates, every order of collinear / non-coplanar '
         'vertex lists, open and inconsistent face sets, all unsupported operand type pairs, move(non-Vector) on all types): the call must raise, never return.'),
 'C18': ('exploration', 'Grid of all ordered pairs of {-2..2}^3 vectors x 4 coordinate types x 10 operations compared exactly with component formulas; one execution with polynomial '
         'indeterminates (ring type forbidding comparison/conversion) bounding the degree so that the grid decides the identity; all 5^3 promotion mixtures; metric functions over D2 x magnitudes.'),
 'C07': ('model_checking', 'Explicit-state BFS over histories of move / chained move / deepcopy / move-and-back on real objects of all 7 types; state = bit-exact snapshot of receiver and '
         'returned handle (with aliasing) + model translation; in every state both handles answer a query battery (membership, intersection, distance, angle, measures, ==, hash, cached '
         'derived attributes) exactly like a freshly constructed object at the model translation.'),
 'C12': ('model_checking', 'Closure search of a pool of 41 mutually related objects of all 7 types under intersection to depth 2 (all ordered triples, both nestings, all 343 type triples in '
         'the thorough tier): every executed edge must land on the exact model node (associativity, commutativity, idempotence, absorption) and result vertices must be `in` both operands.'),
 'C13': ('model_checking', 'Breadth-first orbit search over the Cayley graph of the 48 cube symmetries x translation x scalings for every base scene of the pool (and for the shape builders): '
         'every query answer at node g must equal g applied to the answer at the identity (differential, no expected values).'),
 'C19': ('model_checking', 'All sequences of the 18 set_eps / set_sig_figures calls to the stated depth executed on the real process-global configuration (state = all FLOAT_EPS / SIG_FIGURES '
         'copies in Geometry3D.*); in every history the relation between the globals and a perturbation battery (eps/1000, eps/100, 4 eps on every defining coordinate of catalogue objects '
         'of all types) must hold, with identical outcome along all histories into the same configuration.'),
 'C20': ('model_checking', 'Every query instance and every ordered pair of query instances on a pool of objects of all types must be a self-loop on the bit-exact snapshot of the pool and of '
         'all module globals with history-independent answers; every history (to the stated depth) of shared-argument mutations, deep copies and moves for each composite recipe.'),
 'C16': ('exploration', 'Every augmented matrix of shapes 1x3..3x4 over small integer/half-integer alphabets is solved by the real solver and compared '
         'with exact rational Gaussian elimination (truthiness, free-parameter count, every returned tuple substituted back).'),
 'C17': ('exploration', 'All planes Plane(p,n) with n in {-2..2}^3 (every zero/sign pattern), all (a,b,c,d) coefficient tuples, all non-collinear lattice point triples, all (v,w) '
         'pairs, all lattice lines in three constructor forms: every read-back form rebuilt and compared with the exact plane/line; lattice membership of Plane(a,b,c,d).'),
}

_ENG = {}
CHECKS = []
for pid in sorted(_T):
    lvl, text = _T[pid]
    eng = {'C07': 'E2', 'C19': 'E2', 'C20': 'E2', 'C12': 'E3', 'C13': 'E3'}.get(pid, 'E1')
    CHECKS.append({'id': pid, 'engine': eng, 'level': lvl, 'ref': 'DESIGN.md §3 ' + pid,
                   'technique': {'E1': E1, 'E2': E2, 'E3': E3}[eng], 'text': text, 'note': TRUST})

ENGINES = [
    {'name': 'E1', 'path': 'mc/core.py', 'serves_properties': [c['id'] for c in CHECKS if c['engine'] == 'E1'],
     'kind_free_text': 'sharded bounded-exhaustive product enumerator over scene alphabets, run on the real code against the exact model (mc/exact.py)'},
    {'name': 'E2', 'path': 'mc/e2.py', 'serves_properties': [c['id'] for c in CHECKS if c['engine'] == 'E2'],
     'kind_free_text': 'explicit-state BFS over operation histories replayed on fresh real objects; state key = canonical bit-exact snapshot (mc/snapshot.py)'},
    {'name': 'E3', 'path': 'mc/props/C12.py, mc/props/C13.py', 'serves_properties': [c['id'] for c in CHECKS if c['engine'] == 'E3'],
     'kind_free_text': 'closure search under intersection / orbit search over a transformation group, nodes on the model side, edges executed on the implementation'},
]

_ALL = ['C%02d' % i for i in range(1, 21)]
NOT_APPLICABLE = [{'property_id': p, 'reason': 'not claimed in this revision'}
                  for p in _ALL if p not in {c['id'] for c in CHECKS}]

NOTES = ('All checks: python -m mc.check <id> --tier quick|thorough, cwd /verif, exit 0/1 per the interface, exit 2 = harness error. '
         'Deciding technique everywhere: exhaustive enumeration of a stated finite scene/state space on the real implementation, '
         'compared with an exact rational reference model; no sampling, no solver verdicts.')
