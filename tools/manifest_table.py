TRUST = ('Trusted base: the exact rational reference model (mc/exact.py), the observation tolerances (mc/lib.py), '
         'the model-side admission guard, CPython; PYTHONHASHSEED pinned to 0; bounded to the finite alphabets stated in the evidence.')

E1 = 'bounded-exhaustive explicit enumeration of a finite scene space on the real code, every scene compared with an exact rational reference model'

_T = {
 'C01': ('exploration', 'Every ordered pair of flat objects (Line/HalfLine/Segment through all ordered lattice point pairs, all distinct lattice planes, '
         'half-lattice points) under exact oblique poses is intersected by the real code (function and method form) and compared with the closed-form exact model; '
         'all 25 type pairs and all collinear interval relations are populated (cells in evidence).'),
 'C02': ('exploration', 'For every catalogue body x pose, every flat anchored at a body feature (vertex, edge midpoint, face point, interior) with directions from D1, '
         'edge directions and facet normals, in both argument orders, plus the exported boundary-hit helpers, is compared with exact clipping / vertex enumeration.'),
 'C03': ('exploration', 'Ordered pairs of catalogue bodies under all lattice translations of a window, all feature alignments, nested scalings and exact affine '
         're-orientations (whole scene under oblique poses): result kind, vertex set, face count and measures against the exact vertex enumeration.'),
 'C05': ('exploration', 'Every (container, candidate) pair: lattice line-likes/planes x half-lattice points and lattice segments/half-lines/lines; bodies x feature points '
         '(on, just inside, just outside every boundary feature), feature segments, faces, shrunk/shifted/enlarged faces, cross-sections; against exact containment.'),
 'C06': ('exploration', 'All vertex permutations (n! up to the stated n, structured family beyond), all face orders x 2^F orientations (bounds stated per F), lattice segments '
         'and (face, apex) pyramids under poses: length/area/volume/height against exact rational measures.'),
 'C09': ('exploration', 'Same construction spaces as C06 plus vertex duplications and feedback of intersection results: vertex set, CCW cycle about the normal, negation, '
         'outward face normals, exact vertex/edge/facet sets, Euler count, centre strictly inside.'),
 'C10': ('exploration', 'All documented pairs over lattice points, lines through all ordered lattice point pairs and all distinct lattice planes x poses, both argument orders, '
         'function/method forms: value against the exact rational squared distance, sign, symmetry, zero iff intersection non-empty.'),
 'C11': ('exploration', 'All ordered pairs of lattice direction vectors (quick: D2xD2 plus every exactly parallel/anti-parallel/perpendicular pair of {-3..3}^3; thorough: all 342^2) '
         'x 5 type combinations x angle/parallel/orthogonal x function, swapped, method forms against exact cos^2 and exact flags.'),
 'C16': ('exploration', 'Every augmented matrix of shapes 1x3..3x4 over small integer/half-integer alphabets is solved by the real solver and compared '
         'with exact rational Gaussian elimination (truthiness, free-parameter count, every returned tuple substituted back).'),
 'C17': ('exploration', 'All planes Plane(p,n) with n in {-2..2}^3 (every zero/sign pattern), all (a,b,c,d) coefficient tuples, all non-collinear lattice point triples, all (v,w) '
         'pairs, all lattice lines in three constructor forms: every read-back form rebuilt and compared with the exact plane/line; lattice membership of Plane(a,b,c,d).'),
}

_ENG = {}
CHECKS = []
for pid in sorted(_T):
    lvl, text = _T[pid]
    eng = 'E1'
    CHECKS.append({'id': pid, 'engine': eng, 'level': lvl, 'ref': 'DESIGN.md §3 ' + pid,
                   'technique': E1 if eng == 'E1' else '', 'text': text, 'note': TRUST})

ENGINES = [
    {'name': 'E1', 'path': 'mc/core.py', 'serves_properties': [c['id'] for c in CHECKS if c['engine'] == 'E1'],
     'kind_free_text': 'sharded bounded-exhaustive product enumerator over scene alphabets, run on the real code against the exact model (mc/exact.py)'},
]

_ALL = ['C%02d' % i for i in range(1, 21)]
NOT_APPLICABLE = [{'property_id': p, 'reason': 'check not built yet in this revision (planned, see DESIGN.md §3); nothing is claimed for it'}
                  for p in _ALL if p not in {c['id'] for c in CHECKS}]

NOTES = ('All checks: python -m mc.check <id> --tier quick|thorough, cwd /verif, exit 0/1 per the interface, exit 2 = harness error. '
         'Deciding technique everywhere: exhaustive enumeration of a stated finite scene/state space on the real implementation, '
         'compared with an exact rational reference model; no sampling, no solver verdicts.')
