#!/bin/bash
# usage: tools/mut.sh <file-in-repo> <sed-expr> <check-id> [tier]   — apply a mutation, run unit tests + check, revert
set -u
f=$1; expr=$2; id=$3; tier=${4:-quick}
cd /repo || exit 2
if ! git diff --quiet; then echo "repo dirty"; exit 2; fi
sed -i "$expr" "$f"
if git diff --quiet; then echo "MUTATION DID NOT APPLY"; exit 2; fi
git diff | grep '^[+-]' | grep -v '^+++\|^---'
/venv/bin/python -m pytest -q -p no:cacheprovider -x 2>&1 | tail -1
cd /verif
for i in $id; do PYTHONHASHSEED=0 timeout 1800 /venv/bin/python -m mc.check $i --tier $tier 2>&1 | grep -v '^WARNING conda' | head -${HEADN:-8}; echo "exit=$?"; done
git -C /repo checkout -- .
git -C /verif checkout -- evidence 2>/dev/null
