#!/venv/bin/python
"""Confirm a seeded change and run checks against it.

usage: tools/seedtest.py <seed-dir> <property-id> [--checks C01,C04] [--tier quick] [--keep-as NAME]

<seed-dir> contains patch.diff, demo.py, notes.md (as produced by a seeding sub-agent).
Steps (all against /repo itself, reverted afterwards):
  1. demo.py on the clean tree must exit 0
  2. git apply patch.diff; unit tests must pass (87); demo.py must exit non-zero
  3. run the listed checks (default: the property's own check), record exit codes / signatures
  4. git checkout -- . ; restore evidence files
With --keep-as NAME the seed is copied to /verif/seeded/NAME/ with a meta.json.
"""
import argparse
import json
import os
import re
import shutil
import subprocess
import sys
import time

REPO = '/repo'
VERIF = '/verif'
PY = '/venv/bin/python'


def sh(cmd, cwd=None, timeout=3600, env=None):
    e = dict(os.environ)
    if env:
        e.update(env)
    p = subprocess.run(cmd, shell=True, cwd=cwd, capture_output=True, text=True, timeout=timeout, env=e)
    return p.returncode, p.stdout + p.stderr


def main():
    ap = argparse.ArgumentParser()
    ap.add_argument('seed')
    ap.add_argument('prop')
    ap.add_argument('--checks')
    ap.add_argument('--tier', default='quick')
    ap.add_argument('--keep-as')
    ap.add_argument('--needs', default='')
    ap.add_argument('--worktree', action='store_true', help='apply the patch in a scratch worktree of /repo instead of /repo itself (exploratory, parallel-safe)')
    a = ap.parse_args()
    global REPO
    seed = os.path.abspath(a.seed)
    checks = (a.checks or a.prop).split(',')
    wt = None
    extra_env = {}
    if a.worktree:
        wt = '/tmp/st_%d' % os.getpid()
        for _try in range(8):
            rc_, out_ = sh('git -C /repo worktree add -q --detach %s HEAD' % wt)
            if rc_ == 0 and os.path.isdir(wt):
                break
            time.sleep(1.5 + _try)
        else:
            print('cannot create worktree:', out_)
            return 2
        REPO = wt
        extra_env = {'VERIF_REPO': wt, 'PYTHONPATH': wt}
    rc, out = sh('git status --porcelain', cwd=REPO)
    if out.strip():
        print('repo dirty, abort')
        return 2
    res = {'property': a.prop, 'seed_dir': seed, 'checks': {}, 'ran': []}
    HS = ('0', '1', '2', '3')
    rcs = [sh('%s %s/demo.py' % (PY, seed), cwd=REPO, env={'PYTHONHASHSEED': h, 'PYTHONPATH': REPO})[0] for h in HS]
    rc = max(rcs)
    res['demo_clean_exit'] = rc
    res['ran'].append('demo.py on clean tree under PYTHONHASHSEED 0..3 -> exit codes %s' % rcs)
    rc, out = sh('git apply %s/patch.diff' % seed, cwd=REPO)
    if rc != 0:
        # the seed was made against an earlier commit of /repo: fall back to a three-way merge of the hunks
        rc, out = sh('git apply --3way %s/patch.diff' % seed, cwd=REPO)
        sh('git reset -q', cwd=REPO)
    if rc != 0:
        print('patch does not apply:', out)
        return 2
    try:
        # the pinned suite must pass whatever the string-hash seed (some of its tests iterate sets)
        outs_ = []
        for h in ('0', '1', '2', '3', '4', '5'):
            rc, out = sh('%s -m pytest -q -p no:cacheprovider 2>&1 | tail -1' % PY, cwd=REPO, env={'PYTHONHASHSEED': h})
            outs_.append(out.strip().splitlines()[-1] if out.strip() else '')
        bad_ = [o for o in outs_ if '87 passed' not in o]
        res['unit_tests'] = bad_[0] if bad_ else outs_[0]
        res['ran'].append('unit tests with change under PYTHONHASHSEED 0..5 -> %s' % [o.split(' in ')[0] for o in outs_])
        outs = [sh('%s %s/demo.py' % (PY, seed), cwd=REPO, env={'PYTHONHASHSEED': h, 'PYTHONPATH': REPO}) for h in HS]
        rcs = [o[0] for o in outs]
        rc = max(rcs)
        out = next(o[1] for o in outs if o[0] == rc)
        res['demo_mutant_exit'] = rc
        res['demo_mutant_output'] = out[-600:]
        res['ran'].append('demo.py with change under PYTHONHASHSEED 0..3 -> exit codes %s' % rcs)
        for c in checks:
            t0 = time.time()
            ev = dict(extra_env)
            if wt:
                ev['VERIF_EVIDENCE_OUT'] = '/tmp/st_ev_%d.json' % os.getpid()
            rc, out = sh('PYTHONHASHSEED=0 %s -m mc.check %s --tier %s' % (PY, c, a.tier), cwd=VERIF, timeout=14400, env=ev)
            sigs = re.findall(r'signature: (\S+)', out)
            res['checks'][c] = {'exit': rc, 'signatures': sigs[:8], 'n_signatures': len(sigs), 'wall_s': round(time.time() - t0, 1),
                                'tail': out.strip().splitlines()[-1][-300:] if out.strip() else ''}
            res['ran'].append('check %s --tier %s with change -> exit %d (%d violation signatures)' % (c, a.tier, rc, len(sigs)))
    finally:
        sh('git checkout -- .', cwd=REPO)
        if wt:
            sh('git -C /repo worktree remove --force %s' % wt)
            try:
                os.unlink('/tmp/st_ev_%d.json' % os.getpid())
            except OSError:
                pass
        else:
            sh('git checkout -- evidence', cwd=VERIF)
    ok = (res['demo_clean_exit'] == 0 and res.get('demo_mutant_exit', 0) != 0 and '87 passed' in res.get('unit_tests', ''))
    res['confirmed'] = ok
    res['detected_by'] = [c for c, r in res['checks'].items() if r['exit'] == 1]
    print(json.dumps(res, indent=1))
    if a.keep_as:
        dst = os.path.join(VERIF, 'seeded', a.keep_as)
        os.makedirs(dst, exist_ok=True)
        for f in ('patch.diff', 'demo.py', 'notes.md'):
            if os.path.exists(os.path.join(seed, f)) and os.path.abspath(seed) != os.path.abspath(dst):
                shutil.copy(os.path.join(seed, f), dst)
        meta = {'breaks_property': a.prop, 'needs_to_manifest': a.needs or 'see notes.md', 'confirmed': ok,
                'what_was_run': res['ran'], 'detected_by': res['detected_by'], 'checks': res['checks'],
                'repo_commit': sh('git rev-parse HEAD', cwd='/repo')[1].strip()}
        mp = os.path.join(dst, 'meta.json')
        if os.path.exists(mp):
            old = json.load(open(mp))
            old_checks = old.get('checks', {})
            old_checks.update(meta['checks'])
            meta['checks'] = old_checks
            meta['detected_by'] = sorted(c for c, r in old_checks.items() if r['exit'] == 1)
            meta['what_was_run'] = (old.get('what_was_run', []) + meta['what_was_run'])[-16:]
            for k_ in ('status', 'needs_to_manifest'):
                if k_ in old and (k_ == 'status' or not a.needs):
                    meta[k_] = old[k_]
            if str(old.get('status', '')).startswith('superseded'):
                meta['confirmed'] = False
        json.dump(meta, open(mp, 'w'), indent=1)
    return 0


if __name__ == '__main__':
    sys.exit(main())
