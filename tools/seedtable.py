#!/venv/bin/python
"""prints the markdown table of seeded changes (DESIGN.md section 0.6) from /verif/seeded/*/meta.json"""
import json, os, glob
ROOT = os.path.dirname(os.path.dirname(os.path.abspath(__file__)))
desc = json.load(open(os.path.join(ROOT, 'tools', 'seed_descriptions.json')))
print('| seed | breaks | change | needs | caught by (quick tier), first signature |')
print('|---|---|---|---|---|')
for d in sorted(glob.glob(os.path.join(ROOT, 'seeded', '*'))):
    name = os.path.basename(d)
    m = json.load(open(os.path.join(d, 'meta.json')))
    what, needs = desc.get(name, ['see notes.md', m.get('needs_to_manifest', '')])
    det = []
    for c, r in sorted(m['checks'].items()):
        if r['exit'] == 1:
            det.append('%s: `%s`' % (c, (r['signatures'] or ['?'])[0].replace('|', '¦')))
    missed = [c for c, r in sorted(m['checks'].items()) if r['exit'] != 1]
    if m.get('status', '').startswith('unconfirmed'):
        print('| %s | %s | %s | %s | not a valid seeded change: the pinned tests fail with it under some hash seeds (caught anyway: %s) |' % (name, m['breaks_property'], what, needs, ', '.join(m.get('detected_by', [])) or '-'))
        continue
    if m.get('status', '').startswith('superseded'):
        print('| %s | %s | %s | %s | not a breaking change on the current tree (superseded by a repair, see meta.json) |' % (name, m['breaks_property'], what, needs))
        continue
    print('| %s | %s | %s | %s | %s%s |' % (name, m['breaks_property'], what, needs, '; '.join(det) or '**not caught**',
                                          (' (not by ' + ', '.join(missed) + ')') if missed and det else ''))
